//@unit props=C13 tier=quick rlimit=30
// C13, hostile-digraph mode: the traversal steps re-verified for memory safety ONLY, against a digraph that satisfies the
// trait contracts but NOT contiguity (a non-contiguous AdjacencyMap reports successor ids >= order()).  The queue / stack /
// heap invariant is still assumed (it is established by `new`, which asserts every source < order).  The index obligations
// on successor ids are expected to fail: that is the recorded finding F3 (successor half).  Bfs and Dfs stand for the nine
// traversal `next` functions (BfsDist, BfsPred, DfsDist, DfsPred, Dijkstra, DijkstraDist, DijkstraPred have the same access).
use vstd::prelude::*;
use vstd::slice::SliceIndexSpec;
use std::collections::VecDeque;
use vstd::std_specs::iter::IteratorSpec;
verus! {
global size_of usize == 8;
//@include prelude/std_contracts.rs
//@include prelude/dg.rs

//@file src/algo/bfs.rs
/*@struct name=Bfs subst=D=>Dg drop=D @*/
impl<'a> Bfs<'a> {
    spec fn safe_inv(&self) -> bool {
        &&& self.visited@.len() == self.digraph.ord()
        &&& forall|i: int| 0 <= i < self.queue@.len() ==> #[trigger] self.queue@[i] < self.digraph.ord()
    }
    /*@fn impl=Bfs trait=Iterator name=next subst=Self::Item=>usize
    requires
        old(self).safe_inv(),
    ensures
        final(self).visited@.len() == old(self).visited@.len(),
    @loop 1
    invariant
        it1.iter.obeys_prophetic_iter_laws(),
        it1.iter.decrease() is Some,
        self.visited@.len() == old(self).visited@.len(),
    @*/
}

//@file src/algo/dfs.rs
/*@struct name=Dfs subst=D=>Dg drop=D @*/
impl<'a> Dfs<'a> {
    spec fn safe_inv(&self) -> bool {
        &&& self.visited@.len() == self.digraph.ord()
        &&& forall|i: int| 0 <= i < self.stack@.len() ==> #[trigger] self.stack@[i] < self.digraph.ord()
    }
    /*@fn impl=Dfs trait=Iterator name=next subst=Self::Item=>usize
    requires
        old(self).safe_inv(),
    ensures
        final(self).visited@.len() == old(self).visited@.len(),
    @loop 1
    invariant
        it1.iter.obeys_prophetic_iter_laws(),
        it1.iter.decrease() is Some,
        self.visited@.len() == old(self).visited@.len(),
    @*/
}

} // verus!
fn main() {}
