//@unit props=C05,C13 tier=quick rlimit=30
//@file src/algo/bfs_pred.rs
use vstd::prelude::*;
use vstd::set_lib::*;
use vstd::slice::SliceIndexSpec;
use std::collections::VecDeque;
use vstd::std_specs::iter::IteratorSpec;
verus! {
global size_of usize == 8;
//@include prelude/std_contracts.rs
//@include prelude/bfs_pred_std.rs
//@include prelude/dg.rs
//@include speclib/graph.rs
//@include speclib/bfs_lemmas.rs
//@include speclib/bfs_pred_lemmas.rs

// ---------------------------------------------------------------------------------------------
// PredecessorTree::{new, search_by, search}: re-declared with the contracts of units/predecessor_tree.rs (owner: C19)
// ---------------------------------------------------------------------------------------------
//@file src/algo/predecessor_tree.rs
/*@struct name=PredecessorTree @*/

impl PredecessorTree {
    /*@fn impl=PredecessorTree name=new props=C19
    ensures
        order > 0,
        r.pred@.len() == order,
        forall|i: int| 0 <= i < order ==> r.pred@[i] is None,
    @*/

    #[verifier::loop_isolation(false)]
    /*@fn impl=PredecessorTree name=search_by props=C19 safeindex
    requires
        callable(is_target),
        deterministic(is_target),
    ensures
        s < self.pred.len(),
        match r {
            Some(p) => found(self.pred@, is_target, s, p@),
            None => never(self.pred@, is_target, s),
        },
    @fn_start
        let ghost s0 = s;
        let ghost pr = self.pred@;
    @before `return Some(vec![s])`
        proof {
            lemma_init(pr, is_target, s0, Seq::new(pr.len(), |i: int| false), seq![s0]);
            lemma_hit(pr, is_target, s0, 0, s0, Seq::new(pr.len(), |i: int| false), seq![s0]);
            assert forall|p: Seq<usize>| p.len() == 1 && p[0] == s0 implies #[trigger] found(pr, is_target, s0, p) by {
                assert(p =~= seq![s0]);
            }
        }
    @before `while let Some(&v)`
        let ghost mut k: nat = 0;
        proof {
            lemma_init(pr, is_target, s0, visited@, path@);
        }
    @loop 1
    invariant
        pr == self.pred@,
        callable(is_target),
        deterministic(is_target),
        s < pr.len(),
        visited@.len() == pr.len(),
        inv(pr, is_target, s0, k, s, visited@, path@),
    decreases
        count_false(visited@),
    @before `return Some(path)`
        proof {
            lemma_hit(pr, is_target, s0, k, s, visited@, path@);
        }
    @before `if let Some(v) = v`
        proof {
            match v {
                None => { lemma_break_ended(pr, is_target, s0, k, s, visited@, path@); }
                Some(w) => {
                    if w >= pr.len() {
                        lemma_break_ended(pr, is_target, s0, k, s, visited@, path@);
                    } else if visited@[w as int] {
                        lemma_break_visited(pr, is_target, s0, k, s, visited@, path@, w);
                    } else {
                        lemma_pt_step(pr, is_target, s0, k, s, visited@, path@, w);
                    }
                }
            }
        }
    @after `s = v;`
        proof {
            k = k + 1;
        }
    @*/

    /*@fn impl=PredecessorTree name=search props=C19
    requires
        s < self.pred.len(),
    ensures
        match r {
            Some(p) => exists|k: nat| chain(self.pred@, s, k) == Some(t) && t < self.pred.len()
                && (forall|j: nat| j < k ==> chain(self.pred@, s, j) != Some(t))
                && is_prefix(self.pred@, s, k, p@),
            None => forall|k: nat| !(chain(self.pred@, s, k) == Some(t) && t < self.pred.len()),
        },
        r matches Some(p) ==> link_path(self.pred@, s, p@) && p@.last() == t
            && (forall|i: int| 0 <= i < p@.len() - 1 ==> #[trigger] p@[i] != t)
            && distinct(p@),
    @fn_start
        proof { reveal(found); }
    @closure 1 |v__r: &usize, _p: &Option<usize>| -> (b: bool)
    ensures b == (*v__r == t)
    @*/
}
//@file src/algo/bfs_pred.rs

// ---------------------------------------------------------------------------------------------
// concrete state -> abstract state (speclib/bfs_lemmas.rs, speclib/bfs_pred_lemmas.rs)
// ---------------------------------------------------------------------------------------------
/*@type name=Step @*/

spec fn qv_of3(q: Seq<Step>) -> Seq<int> { Seq::new(q.len(), |i: int| q[i].1 as int) }
spec fn opt_int(p: Option<usize>) -> Option<int> { match p { Some(u) => Some(u as int), None => None } }
spec fn pv_of3(q: Seq<Step>) -> Seq<Option<int>> { Seq::new(q.len(), |i: int| opt_int(q[i].0)) }

/// entries appended by one step from vertex v
spec fn new_entries3(add: Seq<int>, v: usize) -> Seq<Step> { Seq::new(add.len(), |k: int| (Some(v), add[k] as usize)) }

/// memory safety + every queued predecessor is an in-neighbour (holds for every source set: needs no BFS invariant)
spec fn wf3(dg: &Dg, q: Seq<Step>, vis: Seq<bool>) -> bool {
    &&& dg.wf()
    &&& vis.len() == dg.ord()
    &&& forall|i: int| 0 <= i < q.len() ==> (#[trigger] q[i]).1 < vis.len() && (q[i].0 matches Some(p) ==> dg.has(p as int, q[i].1 as int))
}

/// the BFS invariant (levels and the level function are existential: no ghost state)
spec fn inv3(dg: &Dg, q: Seq<Step>, vis: Seq<bool>, srcs: Set<int>) -> bool {
    exists|lv: Seq<int>, d: spec_fn(int) -> int| pinv(dg_has(dg), qv_of3(q), pv_of3(q), lv, vis, srcs, d)
}

spec fn fuel3(q: Seq<Step>, vis: Seq<bool>) -> int { vis.len() - ct(vis) + q.len() }

/// what one call of BfsPred::next (returning Some(q0[0]) = Some((p, x))) means for every source set the invariant holds for:
/// x is reachable and is yielded for the first time; every vertex not yielded before is at least as far from the sources
/// as x; p is None iff x is a source, otherwise p was yielded before, p -> x is an arc and hop(p) + 1 == hop(x)
spec fn next_sem3(dg: &Dg, q0: Seq<Step>, vis0: Seq<bool>, q: Seq<Step>, vis: Seq<bool>, srcs: Set<int>) -> bool {
    let has = dg_has(dg);
    let x = q0[0].1 as int;
    let h = hop(has, srcs, x);
    &&& inv3(dg, q, vis, srcs)
    &&& is_min_walk_weight(has, unit_w(), srcs, x, h)
    &&& !is_done(qv_of3(q0), vis0, x)
    &&& forall|v: int| is_done(qv_of3(q), vis, v) <==> is_done(qv_of3(q0), vis0, v) || v == x
    &&& forall|t: int| !#[trigger] is_done(qv_of3(q0), vis0, t) ==> is_lower_bound(has, unit_w(), srcs, t, h)
    &&& forall|i: int| 0 <= i < q.len() ==> h <= hop(has, srcs, (#[trigger] q[i]).1 as int)
    &&& match q0[0].0 {
        None => srcs.contains(x),
        Some(u) => !srcs.contains(x) && is_done(qv_of3(q0), vis0, u as int) && has(u as int, x)
            && is_min_walk_weight(has, unit_w(), srcs, u as int, h - 1),
    }
}

/// step_done in terms of the abstract step relation
proof fn lemma_step_done_bstep(dg: &Dg, u: usize, vis0: Seq<bool>, vis: Seq<bool>, add: Seq<int>, qv: Seq<int>, lv: Seq<int>, qv2: Seq<int>, lv2: Seq<int>)
    requires
        step_done(dg, u, vis0, vis, add),
        qv.len() > 0,
        lv.len() == qv.len(),
        qv[0] == u,
        qv2 == qv.skip(1) + add,
        lv2 == lv.skip(1) + Seq::new(add.len(), |k: int| lv[0] + 1),
    ensures
        bstep(dg_has(dg), qv, lv, vis0, qv2, lv2, vis, add),
{
    reveal(step_done);
    let has = dg_has(dg);
    assert forall|x: int| #[trigger] has(qv[0], x) && 0 <= x < vis0.len() && !vis0[x] implies add.contains(x) by {
        let xu = x as usize;
        assert(dg.has(u as int, xu as int));
    }
}

proof fn lemma_bridge_pred(q0: Seq<Step>, q: Seq<Step>, add: Seq<int>)
    requires
        q0.len() > 0,
        q == q0.skip(1) + new_entries3(add, q0[0].1),
        forall|k: int| 0 <= k < add.len() ==> 0 <= #[trigger] add[k] <= usize::MAX,
    ensures
        qv_of3(q) == qv_of3(q0).skip(1) + add,
        pv_of3(q) == pv_of3(q0).skip(1) + Seq::new(add.len(), |k: int| Some(qv_of3(q0)[0])),
{
    assert(qv_of3(q) =~= qv_of3(q0).skip(1) + add);
    assert(pv_of3(q) =~= pv_of3(q0).skip(1) + Seq::new(add.len(), |k: int| Some(qv_of3(q0)[0])));
}

proof fn lemma_next_end3_sem(dg: &Dg, q0: Seq<Step>, vis0: Seq<bool>, q: Seq<Step>, vis: Seq<bool>, add: Seq<int>, srcs: Set<int>)
    requires
        wf3(dg, q0, vis0),
        q0.len() > 0,
        step_done(dg, q0[0].1, vis0, vis, add),
        q == q0.skip(1) + new_entries3(add, q0[0].1),
        inv3(dg, q0, vis0, srcs),
    ensures
        next_sem3(dg, q0, vis0, q, vis, srcs),
{
    let has = dg_has(dg);
    let qv = qv_of3(q0);
    let pv = pv_of3(q0);
    let qv2 = qv_of3(q);
    let pv2 = pv_of3(q);
    lemma_has_range(dg);
    let (lv, d) = choose|lv: Seq<int>, d: spec_fn(int) -> int| pinv(has, qv, pv, lv, vis0, srcs, d);
    let lv2 = lv.skip(1) + Seq::new(add.len(), |k: int| lv[0] + 1);
    assert(forall|k: int| 0 <= k < add.len() ==> 0 <= #[trigger] add[k] < vis0.len()) by { reveal(step_done); }
    lemma_bridge_pred(q0, q, add);
    lemma_bflat(has, qv, lv, vis0, srcs, d);
    lemma_step_done_bstep(dg, q0[0].1, vis0, vis, add, qv, lv, qv2, lv2);
    assert(pstep(has, qv, pv, lv, vis0, qv2, pv2, lv2, vis, add));
    lemma_pnext_post(has, qv, pv, lv, vis0, qv2, pv2, lv2, vis, add, srcs);
    let d2 = choose|d2: spec_fn(int) -> int| pinv(has, qv2, pv2, lv2, vis, srcs, d2);
    assert(pinv(has, qv2, pv2, lv2, vis, srcs, d2));
    lemma_hop(has, srcs, qv[0], lv[0]);
    assert(pv[0] == opt_int(q0[0].0));
    assert forall|i: int| 0 <= i < q.len() implies hop(has, srcs, qv[0]) <= hop(has, srcs, (#[trigger] q[i]).1 as int) by {
        lemma_queue_exact_o(has, qv2, lv2, vis, srcs, d2, i);
        lemma_hop(has, srcs, qv2[i], lv2[i]);
        assert(lv[0] <= lv2[i]);
    }
}

proof fn lemma_next_end3(dg: &Dg, q0: Seq<Step>, vis0: Seq<bool>, q: Seq<Step>, vis: Seq<bool>, add: Seq<int>)
    requires
        wf3(dg, q0, vis0),
        q0.len() > 0,
        step_done(dg, q0[0].1, vis0, vis, add),
        q == q0.skip(1) + new_entries3(add, q0[0].1),
    ensures
        wf3(dg, q, vis),
        fuel3(q, vis) == fuel3(q0, vis0) - 1,
        forall|srcs: Set<int>| #[trigger] inv3(dg, q0, vis0, srcs) ==> next_sem3(dg, q0, vis0, q, vis, srcs),
{
    assert forall|i: int| 0 <= i < q.len() implies (#[trigger] q[i]).1 < vis.len() && (q[i].0 matches Some(p) ==> dg.has(p as int, q[i].1 as int)) by {
        reveal(step_done);
        if i < q0.len() - 1 {
            assert(q[i] == q0[i + 1]);
        } else {
            let k = i - (q0.len() - 1);
            assert(q[i] == (Some(q0[0].1), add[k] as usize));
            assert(dg.has(q0[0].1 as int, add[k]));
        }
    }
    assert(ct(vis) == ct(vis0) + add.len()) by { reveal(step_done); }
    assert(vis.len() == vis0.len()) by { reveal(step_done); }
    assert forall|srcs: Set<int>| #[trigger] inv3(dg, q0, vis0, srcs) implies next_sem3(dg, q0, vis0, q, vis, srcs) by {
        lemma_next_end3_sem(dg, q0, vis0, q, vis, add, srcs);
    }
}

proof fn lemma_exhausted3(dg: &Dg, q: Seq<Step>, vis: Seq<bool>)
    requires q.len() == 0,
    ensures forall|srcs: Set<int>| #[trigger] inv3(dg, q, vis, srcs) ==> (forall|v: int| is_done(qv_of3(q), vis, v) <==> reachable(dg_has(dg), srcs, v)),
{
    assert forall|srcs: Set<int>| #[trigger] inv3(dg, q, vis, srcs) implies (forall|v: int| is_done(qv_of3(q), vis, v) <==> reachable(dg_has(dg), srcs, v)) by {
        let (lv, d) = choose|lv: Seq<int>, d: spec_fn(int) -> int| pinv(dg_has(dg), qv_of3(q), pv_of3(q), lv, vis, srcs, d);
        lemma_exhausted_o(dg_has(dg), qv_of3(q), lv, vis, srcs, d);
    }
}

/// writing the yielded item (p, x) into the predecessor vector keeps the tree property
proof fn lemma_ptree_step(dg: &Dg, srcs: Set<int>, q0: Seq<Step>, vis0: Seq<bool>, q: Seq<Step>, vis: Seq<bool>, pr: Seq<Option<usize>>, pr2: Seq<Option<usize>>)
    requires
        wf3(dg, q0, vis0),
        wf3(dg, q, vis),
        q0.len() > 0,
        ptree(dg_has(dg), srcs, qv_of3(q0), vis0, pr),
        next_sem3(dg, q0, vis0, q, vis, srcs),
        pr2 == pr.update(q0[0].1 as int, q0[0].0),
    ensures
        ptree(dg_has(dg), srcs, qv_of3(q), vis, pr2),
{
    reveal(ptree);
    let has = dg_has(dg);
    let qv0 = qv_of3(q0);
    let qv = qv_of3(q);
    let x = q0[0].1 as int;
    let h = hop(has, srcs, x);
    assert(0 <= x < pr.len());
    assert forall|v: int| 0 <= v < pr2.len() && !is_done(qv, vis, v) implies #[trigger] pr2[v] is None by {
        assert(!is_done(qv0, vis0, v) && v != x);
        assert(pr[v] is None);
    }
    assert forall|v: int| 0 <= v < pr2.len() && is_done(qv, vis, v) implies #[trigger] pnode_ok(has, srcs, qv, vis, pr2, v) by {
        if v == x {
            match q0[0].0 {
                Some(u) => {
                    lemma_hop(has, srcs, u as int, h - 1);
                    assert(is_done(qv, vis, u as int));
                }
                None => {}
            }
        } else {
            assert(is_done(qv0, vis0, v));
            assert(pnode_ok(has, srcs, qv0, vis0, pr, v));
            assert(pr2[v] == pr[v]);
            match pr[v] {
                Some(u) => { assert(is_done(qv, vis, u as int)); }
                None => {}
            }
        }
    }
}

// ---- shortest_path: the target predicate ----
spec fn tsays<P: Fn(usize) -> bool>(f: P, v: usize, r: bool) -> bool { f.ensures((v,), r) }
spec fn tcallable<P: Fn(usize) -> bool>(f: P) -> bool { forall|v: usize| #[trigger] f.requires((v,)) }
spec fn tdet<P: Fn(usize) -> bool>(f: P) -> bool {
    forall|v: usize, r1: bool, r2: bool| #[trigger] tsays(f, v, r1) && #[trigger] tsays(f, v, r2) ==> r1 == r2
}

/// every vertex yielded so far was rejected by the predicate
spec fn checked<P: Fn(usize) -> bool>(f: P, qv: Seq<int>, vis: Seq<bool>) -> bool {
    forall|v: int| #[trigger] is_done(qv, vis, v) ==> tsays(f, v as usize, false)
}

/// C05, shortest_path == Some(p): p is a walk from a source to a target, it is a shortest walk to that target, and no
/// walk from a source to ANY target is shorter (weight of a walk under unit weights = number of arcs = len - 1)
spec fn sp_ok<P: Fn(usize) -> bool>(has: ArcRel, srcs: Set<int>, f: P, p: Seq<usize>) -> bool {
    &&& is_walk(has, ints(p))
    &&& srcs.contains(p[0] as int)
    &&& tsays(f, p.last(), true)
    &&& is_min_walk_weight(has, unit_w(), srcs, p.last() as int, p.len() - 1)
    &&& forall|t: usize| #[trigger] tsays(f, t, true) ==> is_lower_bound(has, unit_w(), srcs, t as int, p.len() - 1)
}

/// the chain from x is alive after k links and its k-th vertex has no predecessor entry
spec fn ends_none(pr: Seq<Option<usize>>, x: usize, k: nat) -> bool {
    chain(pr, x, k) matches Some(s) && s < pr.len() && pr[s as int] is None
}

/// the yielded item (_, x) is the first accepted one: what every search path from x to an entry None is, and that one exists
proof fn lemma_sp_return<P: Fn(usize) -> bool>(dg: &Dg, srcs: Set<int>, f: P, q0: Seq<Step>, vis0: Seq<bool>, q: Seq<Step>, vis: Seq<bool>, pr: Seq<Option<usize>>)
    requires
        wf3(dg, q0, vis0),
        wf3(dg, q, vis),
        q0.len() > 0,
        next_sem3(dg, q0, vis0, q, vis, srcs),
        ptree(dg_has(dg), srcs, qv_of3(q), vis, pr),
        checked(f, qv_of3(q0), vis0),
        tdet(f),
        tsays(f, q0[0].1, true),
    ensures
        forall|p: Seq<usize>| #[trigger] link_path(pr, q0[0].1, p) && pr[p.last() as int] is None ==> sp_ok(dg_has(dg), srcs, f, p.reverse()),
        exists|k: nat| ends_none(pr, q0[0].1, k),
{
    let has = dg_has(dg);
    let x = q0[0].1;
    let h = hop(has, srcs, x as int);
    assert(is_done(qv_of3(q), vis, x as int));
    lemma_min_nonneg(has, srcs, x as int, h);
    lemma_chain_to_source(has, srcs, qv_of3(q), vis, pr, x, h as nat);
    assert(ends_none(pr, x, h as nat));
    assert forall|p: Seq<usize>| #[trigger] link_path(pr, x, p) && pr[p.last() as int] is None implies sp_ok(has, srcs, f, p.reverse()) by {
        lemma_link_path_walk(has, srcs, qv_of3(q), vis, pr, x, p);
        let r = p.reverse();
        assert(r.len() == p.len());
        assert(ints(r)[0] == r[0] as int);
        assert forall|t: usize| #[trigger] tsays(f, t, true) implies is_lower_bound(has, unit_w(), srcs, t as int, r.len() - 1) by {
            if is_done(qv_of3(q0), vis0, t as int) {
                assert(tsays(f, (t as int) as usize, false));
            }
        }
    }
}

// ---- cycles ----
/// every entry of the predecessor vector is an in-neighbour
spec fn pred_arcs(dg: &Dg, pr: Seq<Option<usize>>) -> bool {
    forall|y: int| 0 <= y < pr.len() ==> (#[trigger] pr[y] matches Some(p) ==> dg.has(p as int, y))
}

/// C05: an elementary cycle of the digraph: distinct vertices, consecutive ones joined by arcs, last -> first an arc
spec fn elem_cycle(dg: &Dg, c: Seq<usize>) -> bool {
    &&& c.len() >= 2
    &&& distinct(c)
    &&& forall|i: int| 0 <= i < c.len() - 1 ==> dg.has(#[trigger] c[i] as int, c[i + 1] as int)
    &&& dg.has(c.last() as int, c[0] as int)
}

spec fn all_cycles(dg: &Dg, cs: Seq<Vec<usize>>) -> bool {
    forall|i: int| 0 <= i < cs.len() ==> elem_cycle(dg, (#[trigger] cs[i])@)
}

proof fn lemma_cycle(dg: &Dg, pr: Seq<Option<usize>>, v: usize, x: usize, p: Seq<usize>)
    requires
        dg.wf(),
        pred_arcs(dg, pr),
        dg.has(v as int, x as int),
        link_path(pr, v, p),
        p.last() == x,
        distinct(p),
    ensures
        elem_cycle(dg, p.reverse()),
{
    let n = p.len() as int;
    let c = p.reverse();
    assert(v != x);
    assert(c.len() == n);
    assert forall|i: int| 0 <= i < c.len() - 1 implies dg.has(#[trigger] c[i] as int, c[i + 1] as int) by {
        assert(c[i] == p[n - 1 - i]);
        assert(c[i + 1] == p[n - 2 - i]);
        assert(link(pr, p, n - 1 - i));
        assert(p[n - 2 - i] < pr.len());
        assert(pr[p[n - 2 - i] as int] == Some(p[n - 1 - i]));
    }
    assert forall|i: int, j: int| 0 <= i < j < c.len() implies c[i] != c[j] by {
        assert(c[i] == p[n - 1 - i]);
        assert(c[j] == p[n - 1 - j]);
    }
    assert(c[0] == p[n - 1]);
    assert(c.last() == p[0]);
}

/// every search path from v to an out-neighbour x of v, reversed, is an elementary cycle
proof fn lemma_cycle_all(dg: &Dg, pr: Seq<Option<usize>>, v: usize, x: usize)
    requires
        dg.wf(),
        pred_arcs(dg, pr),
        dg.has(v as int, x as int),
    ensures
        forall|p: Seq<usize>| #[trigger] link_path(pr, v, p) && p.last() == x && distinct(p) ==> elem_cycle(dg, p.reverse()),
{
    assert forall|p: Seq<usize>| #[trigger] link_path(pr, v, p) && p.last() == x && distinct(p) implies elem_cycle(dg, p.reverse()) by {
        lemma_cycle(dg, pr, v, x, p);
    }
}

// ---------------------------------------------------------------------------------------------
// BfsPred
// ---------------------------------------------------------------------------------------------
/*@struct name=BfsPred subst=D=>Dg drop=D @*/

impl<'a> BfsPred<'a> {
    spec fn has(&self) -> ArcRel { dg_has(self.digraph) }
    spec fn qv(&self) -> Seq<int> { qv_of3(self.queue@) }

    /// memory-safety part of the invariant
    spec fn wf(&self) -> bool { wf3(self.digraph, self.queue@, self.visited@) }

    /// BFS invariant relative to the source set
    spec fn inv(&self, srcs: Set<int>) -> bool { inv3(self.digraph, self.queue@, self.visited@, srcs) }

    /// already yielded
    spec fn done(&self, v: int) -> bool { is_done(self.qv(), self.visited@, v) }

    /// state built by `new` from distinct in-range sources
    spec fn fresh(&self) -> bool {
        &&& self.wf()
        &&& forall|i: int| 0 <= i < self.queue@.len() ==> (#[trigger] self.queue@[i]).0 is None
        &&& self.qv().no_duplicates()
        &&& forall|v: int| #[trigger] is_vis(self.visited@, v) <==> self.qv().contains(v)
    }

    spec fn srcs(&self) -> Set<int> { self.qv().to_set() }

    /// #vertices not yet yielded (termination measure of the driver loops)
    spec fn fuel(&self) -> int { fuel3(self.queue@, self.visited@) }

    proof fn lemma_fresh_inv(&self)
        requires self.fresh(),
        ensures self.inv(self.srcs()), forall|v: int| !self.done(v),
    {
        let lv = Seq::new(self.qv().len(), |i: int| 0int);
        let d = |v: int| 0int;
        lemma_fresh_o(self.has(), self.qv(), lv, self.visited@);
        assert forall|i: int| 0 <= i < self.qv().len() implies #[trigger] pitem_at(self.has(), self.qv(), pv_of3(self.queue@), self.visited@, self.srcs(), d, i) by {
            assert(self.queue@[i].0 is None);
            assert(self.qv().contains(self.qv()[i]));
        }
        assert(pinv(self.has(), self.qv(), pv_of3(self.queue@), lv, self.visited@, self.srcs(), d));
    }

    /*@fn impl=BfsPred name=new subst=D=>Dg drop=D dropwhere=D
    requires
        digraph.wf(),
        sources.obeys_prophetic_iter_laws(),
        sources.decrease() is Some,
    ensures
        r.digraph == digraph,
        r.wf(),
        sources.remaining().no_duplicates() ==> r.fresh(),
        r.queue@.len() == sources.remaining().len(),
        forall|i: int| 0 <= i < sources.remaining().len() ==> #[trigger] r.queue@[i] == (None::<usize>, sources.remaining()[i]),
        forall|i: int| 0 <= i < sources.remaining().len() ==> #[trigger] sources.remaining()[i] < digraph.ord(),
    @loop 1
    invariant
        it1.iter.obeys_prophetic_iter_laws(),
        it1.iter.decrease() is Some,
        it1.seq() == sources.remaining(),
        order == digraph.ord(),
        visited@.len() == order,
        queue@.len() == it1.index(),
        forall|i: int| 0 <= i < it1.index() ==> #[trigger] queue@[i] == (None::<usize>, it1.seq()[i]),
        forall|i: int| 0 <= i < it1.index() ==> #[trigger] it1.seq()[i] < order,
        forall|v: int| 0 <= v < order ==> #[trigger] visited@[v] == seen_upto(it1.seq(), it1.index(), v),
    @loop_end 1
        proof {
            let k = it1.index();
            assert(u == it1.seq()[k]);
            assert forall|v: int| 0 <= v < order implies #[trigger] visited@[v] == seen_upto(it1.seq(), k + 1, v) by {
                if seen_upto(it1.seq(), k, v) {
                    let j = choose|j: int| 0 <= j < k && j < it1.seq().len() && #[trigger] it1.seq()[j] == v;
                    assert(it1.seq()[j] == v);
                }
                if v == u { assert(it1.seq()[k] == v); }
                if seen_upto(it1.seq(), k + 1, v) && v != u {
                    let j = choose|j: int| 0 <= j < k + 1 && j < it1.seq().len() && #[trigger] it1.seq()[j] == v;
                    assert(j < k);
                }
            }
        }
    @fn_end
        proof {
            let s = sources.remaining();
            assert forall|i: int| 0 <= i < queue@.len() implies (#[trigger] queue@[i]).1 < visited@.len() && (queue@[i].0 matches Some(p) ==> digraph.has(p as int, queue@[i].1 as int)) by {
                assert(queue@[i] == (None::<usize>, s[i]));
            }
            assert forall|i: int| 0 <= i < queue@.len() implies (#[trigger] queue@[i]).0 is None by {
                assert(queue@[i] == (None::<usize>, s[i]));
            }
            assert forall|i: int, j: int| s.no_duplicates() && 0 <= i < j < qv_of3(queue@).len() implies qv_of3(queue@)[i] != qv_of3(queue@)[j] by {
                assert(queue@[i] == (None::<usize>, s[i]));
                assert(queue@[j] == (None::<usize>, s[j]));
            }
            assert forall|v: int| #[trigger] is_vis(visited@, v) <==> qv_of3(queue@).contains(v) by {
                if is_vis(visited@, v) {
                    let j = choose|j: int| 0 <= j < s.len() && j < s.len() && #[trigger] s[j] == v;
                    assert(queue@[j] == (None::<usize>, s[j]));
                    assert(qv_of3(queue@)[j] == v);
                }
                if qv_of3(queue@).contains(v) {
                    let j = choose|j: int| 0 <= j < qv_of3(queue@).len() && qv_of3(queue@)[j] == v;
                    assert(queue@[j] == (None::<usize>, s[j]));
                    assert(s[j] == v);
                    assert(seen_upto(s, s.len() as int, v));
                }
            }
        }
    @*/

    /*@fn impl=BfsPred trait=Iterator name=next subst=Self::Item=>Step
    requires
        old(self).wf(),
    ensures
        final(self).wf(),
        final(self).digraph == old(self).digraph,
        r is None ==> old(self).queue@.len() == 0 && final(self).queue@ == old(self).queue@ && final(self).visited@ == old(self).visited@,
        r is None ==> forall|srcs: Set<int>| #[trigger] old(self).inv(srcs) ==> (forall|v: int| old(self).done(v) <==> reachable(old(self).has(), srcs, v)),
        r matches Some(x) ==> old(self).queue@.len() > 0 && x == old(self).queue@[0] && x.1 < old(self).digraph.ord()
            && (x.0 matches Some(p) ==> p < old(self).digraph.ord() && old(self).digraph.has(p as int, x.1 as int))
            && final(self).fuel() == old(self).fuel() - 1 && final(self).fuel() >= 0,
        r is Some ==> forall|srcs: Set<int>| #[trigger] old(self).inv(srcs) ==> next_sem3(old(self).digraph, old(self).queue@, old(self).visited@, final(self).queue@, final(self).visited@, srcs),
    @before `let step @ (_, v) = self.queue.pop`
        proof {
            if self.queue@.len() == 0 { lemma_exhausted3(self.digraph, self.queue@, self.visited@); }
        }
        let ghost mut add: Seq<int> = Seq::empty();
    @after `let step @ (_, v) = self.queue.pop`
        proof {
            assert(step == old(self).queue@[0]);
            assert(self.queue@ =~= old(self).queue@.skip(1) + new_entries3(add, v));
            lemma_loop_init(self.digraph, v, self.visited@);
        }
    @loop 1
    invariant
        self.digraph == old(self).digraph,
        self.visited@.len() == self.digraph.ord(),
        old(self).queue@.len() > 0,
        step == old(self).queue@[0],
        v == step.1,
        it1.iter.obeys_prophetic_iter_laws(),
        it1.iter.decrease() is Some,
        loop_inv(self.digraph, v, old(self).visited@, self.visited@, add, it1.seq(), it1.index()),
        it1.index() == it1.seq().len() ==> step_done(self.digraph, v, old(self).visited@, self.visited@, add),
        self.queue@ == old(self).queue@.skip(1) + new_entries3(add, v),
    @loop_start 1
        let ghost vis_pre = self.visited@;
        let ghost add_pre = add;
        proof {
            assert(u == it1.seq()[it1.index()]);
            assert(u < self.visited@.len()) by { reveal(loop_inv); }
        }
    @after `self.queue.push`
        proof {
            add = add_pre.push(u as int);
            assert(self.queue@ =~= old(self).queue@.skip(1) + new_entries3(add, v));
        }
    @loop_end 1
        proof {
            lemma_loop_step(self.digraph, v, old(self).visited@, vis_pre, add_pre, it1.seq(), it1.index(), self.visited@, add);
        }
    @fn_end
        proof {
            lemma_next_end3(self.digraph, old(self).queue@, old(self).visited@, self.queue@, self.visited@, add);
            lemma_ct_bounds(self.visited@);
            lemma_has_range(self.digraph);
        }
    @*/

    /*@fn impl=BfsPred name=predecessors subst=D=>Dg drop=D dropwhere=D
    requires
        old(self).fresh(),
    ensures
        final(self).wf(),
        final(self).queue@.len() == 0,
        r.pred@.len() == old(self).digraph.ord(),
        forall|v: int| 0 <= v < r.pred@.len() && old(self).srcs().contains(v) ==> #[trigger] r.pred@[v] is None,
        forall|v: int| 0 <= v < r.pred@.len() && !reachable(old(self).has(), old(self).srcs(), v) ==> #[trigger] r.pred@[v] is None,
        forall|v: int| 0 <= v < r.pred@.len() && reachable(old(self).has(), old(self).srcs(), v) && !old(self).srcs().contains(v)
            ==> tight_pred(old(self).has(), old(self).srcs(), #[trigger] r.pred@[v], v),
        forall|v: int| #[trigger] reachable(old(self).has(), old(self).srcs(), v) ==> 0 <= v < r.pred@.len() && root_at(old(self).has(), old(self).srcs(), r.pred@, v),
    @fn_start
        proof { self.lemma_fresh_inv(); lemma_ct_bounds(self.visited@); }
    @after `let mut pred =`
        proof { lemma_ptree_init(self.has(), old(self).srcs(), self.qv(), self.visited@, pred.pred@); }
    @loop 1
    invariant
        self.wf(),
        self.digraph == old(self).digraph,
        order == self.digraph.ord(),
        self.inv(old(self).srcs()),
        pred.pred@.len() == order,
        ptree(self.has(), old(self).srcs(), self.qv(), self.visited@, pred.pred@),
        self.fuel() >= 0,
    ensures
        self.queue@.len() == 0,
    decreases
        self.fuel(),
    @before_call 1
        let ghost prev = *self;
    @before `*pred_ptr.add(`
        let ghost pr0 = pred.pred@;
    @after `*pred_ptr.add(`
        proof {
            assert(prev.inv(old(self).srcs()));
            assert(next_sem3(prev.digraph, prev.queue@, prev.visited@, self.queue@, self.visited@, old(self).srcs()));
            lemma_ptree_step(self.digraph, old(self).srcs(), prev.queue@, prev.visited@, self.queue@, self.visited@, pr0, pred.pred@);
        }
    @fn_end
        proof {
            lemma_exhausted3(self.digraph, self.queue@, self.visited@);
            assert(self.inv(old(self).srcs()));
            lemma_ptree_final(self.has(), old(self).srcs(), self.qv(), self.visited@, pred.pred@);
        }
    @*/

    // loop_isolation(false): with isolated loops Verus loses the initial value of the `mut path` closure parameter
    // (a closure inside a loop whose parameter is mutated), so the closure's own postcondition is unprovable
    #[verifier::loop_isolation(false)]
    #[verifier::allow_complex_invariants]
    /*@fn impl=BfsPred name=shortest_path subst=D=>Dg drop=D dropwhere=D
    requires
        old(self).fresh(),
        tcallable(is_target),
        tdet(is_target),
    ensures
        final(self).wf(),
        r is None ==> forall|v: int| #[trigger] reachable(old(self).has(), old(self).srcs(), v) ==> tsays(is_target, v as usize, false),
        r matches Some(p) ==> sp_ok(old(self).has(), old(self).srcs(), is_target, p@),
    @fn_start
        proof { self.lemma_fresh_inv(); lemma_ct_bounds(self.visited@); }
    @after `let mut pred =`
        proof { lemma_ptree_init(self.has(), old(self).srcs(), self.qv(), self.visited@, pred.pred@); }
    @loop 1
    invariant
        self.wf(),
        self.digraph == old(self).digraph,
        order == self.digraph.ord(),
        self.inv(old(self).srcs()),
        pred.pred@.len() == order,
        ptree(self.has(), old(self).srcs(), self.qv(), self.visited@, pred.pred@),
        tcallable(is_target),
        tdet(is_target),
        checked(is_target, self.qv(), self.visited@),
        self.fuel() >= 0,
    ensures
        self.queue@.len() == 0,
    decreases
        self.fuel(),
    @before_call 1
        let ghost prev = *self;
    @before `*pred_ptr.add(`
        let ghost pr0 = pred.pred@;
    @after `*pred_ptr.add(`
        proof {
            assert(prev.inv(old(self).srcs()));
            assert(next_sem3(prev.digraph, prev.queue@, prev.visited@, self.queue@, self.visited@, old(self).srcs()));
            lemma_ptree_step(self.digraph, old(self).srcs(), prev.queue@, prev.visited@, self.queue@, self.visited@, pr0, pred.pred@);
        }
    @before `return pred.search_by`
        proof {
            reveal(found);
            lemma_sp_return(self.digraph, old(self).srcs(), is_target, prev.queue@, prev.visited@, self.queue@, self.visited@, pred.pred@);
            let k = choose|k: nat| ends_none(pred.pred@, v, k);
            assert(ends_none(pred.pred@, v, k));
            assert(chain(pred.pred@, v, k) is Some);
        }
    @closure 1 |_a: &usize, b: &Option<usize>| -> (r1: bool)
    ensures r1 == (*b is None)
    @closure 2 |mut path: Vec<usize>| -> (r2: Vec<usize>)
    ensures r2@ == path@.reverse()
    @loop_end 1
        proof {
            assert(tsays(is_target, v, false));
            assert forall|t: int| #[trigger] is_done(self.qv(), self.visited@, t) implies tsays(is_target, t as usize, false) by {
                assert(is_done(prev.qv(), prev.visited@, t) || t == v);
            }
        }
    @fn_end
        proof {
            lemma_exhausted3(self.digraph, self.queue@, self.visited@);
            assert(self.inv(old(self).srcs()));
            assert forall|v: int| #[trigger] reachable(old(self).has(), old(self).srcs(), v) implies tsays(is_target, v as usize, false) by {
                assert(is_done(self.qv(), self.visited@, v));
            }
        }
    @*/

    #[verifier::loop_isolation(false)]
    /*@fn impl=BfsPred name=cycles subst=D=>Dg drop=D dropwhere=D
    requires
        old(self).wf(),
    ensures
        final(self).wf(),
        all_cycles(old(self).digraph, r@),
    @fn_start
        proof { lemma_ct_bounds(self.visited@); }
    @loop 1
    invariant
        self.wf(),
        self.digraph == old(self).digraph,
        order == self.digraph.ord(),
        pred.pred@.len() == order,
        pred_arcs(self.digraph, pred.pred@),
        all_cycles(self.digraph, cycles@),
        self.fuel() >= 0,
    decreases
        self.fuel(),
    @loop 2
    invariant
        it2.iter.obeys_prophetic_iter_laws(),
        it2.iter.decrease() is Some,
        forall|i: int| 0 <= i < it2.seq().len() ==> self.digraph.has(v as int, #[trigger] it2.seq()[i] as int),
        all_cycles(self.digraph, cycles@),
    @loop_start 2
        proof { assert(x == it2.seq()[it2.index()]); }
    @before `if let Some(mut path) = pred.search`
        let ghost c0: Seq<Vec<usize>> = cycles@;
        proof { lemma_cycle_all(self.digraph, pred.pred@, v, x); }
    @after `cycles.push(path);`
        proof {
            assert forall|i: int| 0 <= i < cycles@.len() implies elem_cycle(self.digraph, (#[trigger] cycles@[i])@) by {
                if i < c0.len() { assert(cycles@[i] == c0[i]); }
            }
            assert(all_cycles(self.digraph, cycles@));
        }
    @*/
}

// ---------------------------------------------------------------------------------------------
// C05 trace theorem: a verified CLIENT of the contracts of `new` / `next` (template code, not extracted from /repo).
// It shows that repeated `next` gives exactly the behaviour the property text relies on.
// ---------------------------------------------------------------------------------------------
spec fn occurs3(s: Seq<Step>, v: int) -> bool { exists|i: int| 0 <= i < s.len() && (#[trigger] s[i]).1 == v }

/// the i-th yielded item (p, x): p is None iff x is a source; otherwise p was yielded earlier, p -> x is an arc and
/// hop(p) + 1 == hop(x)
spec fn titem_ok(has: ArcRel, srcs: Set<int>, out: Seq<Step>, i: int) -> bool {
    let x = out[i].1 as int;
    match out[i].0 {
        None => srcs.contains(x),
        Some(p) => !srcs.contains(x) && has(p as int, x) && hop(has, srcs, p as int) + 1 == hop(has, srcs, x)
            && exists|j: int| 0 <= j < i && (#[trigger] out[j]).1 == p,
    }
}

/// the statement for the items `out` yielded so far by a BfsPred in state (q, vis)
#[verifier::opaque]
spec fn trace3(has: ArcRel, srcs: Set<int>, out: Seq<Step>, q: Seq<Step>, vis: Seq<bool>) -> bool {
    &&& forall|i: int, j: int| 0 <= i < j < out.len() ==> (#[trigger] out[i]).1 != (#[trigger] out[j]).1
    &&& forall|v: int| is_done(qv_of3(q), vis, v) <==> #[trigger] occurs3(out, v)
    &&& forall|i: int| 0 <= i < out.len() ==> is_min_walk_weight(has, unit_w(), srcs, (#[trigger] out[i]).1 as int, hop(has, srcs, out[i].1 as int))
    &&& forall|i: int, j: int| 0 <= i <= j < out.len() ==> hop(has, srcs, (#[trigger] out[i]).1 as int) <= hop(has, srcs, (#[trigger] out[j]).1 as int)
    &&& forall|i: int, t: int| 0 <= i < out.len() && !#[trigger] is_done(qv_of3(q), vis, t) ==> is_lower_bound(has, unit_w(), srcs, t, hop(has, srcs, (#[trigger] out[i]).1 as int))
    &&& forall|i: int| 0 <= i < out.len() ==> #[trigger] titem_ok(has, srcs, out, i)
}

proof fn lemma_trace3_init(has: ArcRel, srcs: Set<int>, q: Seq<Step>, vis: Seq<bool>)
    requires forall|v: int| !is_done(qv_of3(q), vis, v),
    ensures trace3(has, srcs, Seq::<Step>::empty(), q, vis),
{
    reveal(trace3);
}

proof fn lemma_trace3_step(dg: &Dg, srcs: Set<int>, out0: Seq<Step>, q0: Seq<Step>, vis0: Seq<bool>, q: Seq<Step>, vis: Seq<bool>)
    requires
        trace3(dg_has(dg), srcs, out0, q0, vis0),
        q0.len() > 0,
        next_sem3(dg, q0, vis0, q, vis, srcs),
    ensures
        trace3(dg_has(dg), srcs, out0.push(q0[0]), q, vis),
{
    reveal(trace3);
    let has = dg_has(dg);
    let it = q0[0];
    let x = it.1 as int;
    let h = hop(has, srcs, x);
    let out = out0.push(it);
    let n = out0.len() as int;
    assert(!occurs3(out0, x));
    assert(out[n] == it);
    assert forall|v: int| is_done(qv_of3(q), vis, v) <==> #[trigger] occurs3(out, v) by {
        if occurs3(out0, v) {
            let i = choose|i: int| 0 <= i < out0.len() && (#[trigger] out0[i]).1 == v;
            assert(out[i].1 == v);
        }
        if occurs3(out, v) && v != x {
            let i = choose|i: int| 0 <= i < out.len() && (#[trigger] out[i]).1 == v;
            assert(out0[i].1 == v);
        }
    }
    assert forall|i: int| 0 <= i < n implies hop(has, srcs, (#[trigger] out[i]).1 as int) <= h by {
        assert(out[i] == out0[i]);
        assert(!is_done(qv_of3(q0), vis0, x));
        assert(is_lower_bound(has, unit_w(), srcs, x, hop(has, srcs, out0[i].1 as int)));
        lemma_lb_le(has, srcs, x, hop(has, srcs, out0[i].1 as int), h);
    }
    assert forall|i: int, j: int| 0 <= i < j < out.len() implies (#[trigger] out[i]).1 != (#[trigger] out[j]).1 by {
        if j == n { assert(out0[i] == out[i]); assert(occurs3(out0, out0[i].1 as int)); }
        else { assert(out0[i] == out[i] && out0[j] == out[j]); }
    }
    assert forall|i: int| 0 <= i < out.len() implies is_min_walk_weight(has, unit_w(), srcs, (#[trigger] out[i]).1 as int, hop(has, srcs, out[i].1 as int)) by {
        if i < n { assert(out[i] == out0[i]); }
    }
    assert forall|i: int, j: int| 0 <= i <= j < out.len() implies hop(has, srcs, (#[trigger] out[i]).1 as int) <= hop(has, srcs, (#[trigger] out[j]).1 as int) by {
        if j < n { assert(out0[i] == out[i] && out0[j] == out[j]); }
        else if i < n { assert(out0[i] == out[i]); }
    }
    assert forall|i: int, t: int| 0 <= i < out.len() && !#[trigger] is_done(qv_of3(q), vis, t) implies is_lower_bound(has, unit_w(), srcs, t, hop(has, srcs, (#[trigger] out[i]).1 as int)) by {
        assert(!is_done(qv_of3(q0), vis0, t));
        if i < n { assert(out[i] == out0[i]); }
    }
    assert forall|i: int| 0 <= i < out.len() implies #[trigger] titem_ok(has, srcs, out, i) by {
        if i < n {
            assert(out[i] == out0[i]);
            assert(titem_ok(has, srcs, out0, i));
            match out0[i].0 {
                Some(p) => {
                    let j = choose|j: int| 0 <= j < i && (#[trigger] out0[j]).1 == p;
                    assert(out[j] == out0[j]);
                }
                None => {}
            }
        } else {
            match it.0 {
                Some(u) => {
                    lemma_hop(has, srcs, u as int, h - 1);
                    assert(occurs3(out0, u as int));
                    let j = choose|j: int| 0 <= j < out0.len() && (#[trigger] out0[j]).1 == u as int;
                    assert(out[j] == out0[j]);
                }
                None => {}
            }
        }
    }
}

/// BfsPred from distinct in-range sources yields every reachable vertex exactly once and nothing else, in non-decreasing
/// order of hop distance from the nearest source; sources come with None, every other vertex with a predecessor that
/// was yielded earlier, is an in-neighbour and is exactly one hop closer
fn c05_bfs_pred_trace(b: &mut BfsPred<'_>) -> (out: Vec<Step>)
    requires
        old(b).fresh(),
    ensures
        forall|i: int, j: int| 0 <= i < j < out@.len() ==> (#[trigger] out@[i]).1 != (#[trigger] out@[j]).1,
        forall|v: int| reachable(old(b).has(), old(b).srcs(), v) <==> #[trigger] occurs3(out@, v),
        forall|i: int| 0 <= i < out@.len() ==> is_min_walk_weight(old(b).has(), unit_w(), old(b).srcs(), (#[trigger] out@[i]).1 as int, hop(old(b).has(), old(b).srcs(), out@[i].1 as int)),
        forall|i: int, j: int| 0 <= i <= j < out@.len() ==> hop(old(b).has(), old(b).srcs(), (#[trigger] out@[i]).1 as int) <= hop(old(b).has(), old(b).srcs(), (#[trigger] out@[j]).1 as int),
        forall|i: int| 0 <= i < out@.len() ==> #[trigger] titem_ok(old(b).has(), old(b).srcs(), out@, i),
{
    let mut out: Vec<Step> = Vec::new();
    let ghost has = b.has();
    let ghost srcs = b.srcs();
    proof {
        b.lemma_fresh_inv();
        lemma_ct_bounds(b.visited@);
        lemma_trace3_init(has, srcs, b.queue@, b.visited@);
    }
    let ghost mut prev = *b;
    loop
        invariant_except_break
            prev == *b,
        invariant
            b.wf(),
            b.digraph == old(b).digraph,
            has == old(b).has(),
            srcs == old(b).srcs(),
            b.inv(srcs),
            b.fuel() >= 0,
            trace3(has, srcs, out@, b.queue@, b.visited@),
        ensures
            forall|v: int| is_done(qv_of3(b.queue@), b.visited@, v) <==> reachable(has, srcs, v),
        decreases
            b.fuel(),
    {
        match b.next() {
            Some(x) => {
                proof {
                    assert(prev.inv(srcs));
                    lemma_trace3_step(b.digraph, srcs, out@, prev.queue@, prev.visited@, b.queue@, b.visited@);
                }
                out.push(x);
                proof { prev = *b; }
            }
            None => {
                proof {
                    assert(prev.inv(srcs));
                    assert forall|v: int| is_done(qv_of3(b.queue@), b.visited@, v) <==> reachable(has, srcs, v) by {
                        assert(prev.done(v) <==> reachable(prev.has(), srcs, v));
                    }
                }
                break;
            }
        }
    }
    proof { reveal(trace3); }
    out
}

} // verus!
fn main() {}
