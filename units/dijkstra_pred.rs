//@unit props=C05,C13 tier=quick rlimit=30
//@file src/algo/dijkstra_pred.rs
// The Dijkstra half of C05 (DijkstraPred::{new, next, predecessors, shortest_path}), C13 for every index they touch.
//
// Sibling of units/dijkstra.rs.  The heap holds (key, (pred, vertex)) items; `items()` is their projection onto the
// (key, vertex) multiset (`proj`, speclib/dijkstra_pred_lemmas.rs: pi is injective on the heap), so that the
// label-correcting invariant `dj_inv`, the step relations and the trace rules of speclib/dijkstra_lemmas.rs apply
// unchanged.  `inv(s)` (= djp_inv) adds: every heap item (k, (p, x)) with p == None is a source with k == 0; with
// p == Some(q): q -> x is an arc, q is done (labelled, label not pending) and label(q) + w(q, x) == k; and no done
// vertex is labelled above a pending key (so done labels never change).
// `next` exposes, besides the contract of Dijkstra::next, the predecessor clause of the returned item over the state
// before the call (`step_pred_ok`).  The two drivers fold the items into a ghost trace `em` (trace_inv) and the
// predecessor table (`tree_inv`: the predecessor of the i-th yielded vertex was yielded earlier, with key = key_i - w).
// `search_by` / `PredecessorTree::new` are re-extracted with the contracts of units/predecessor_tree.rs (props=C19);
// the spec functions and lemmas of that unit are copied verbatim below (section "predecessor tree").
#![feature(allocator_api)]
use vstd::prelude::*;
use std::collections::BinaryHeap;
use core::cmp::Reverse;
use vstd::multiset::Multiset;
use vstd::std_specs::iter::IteratorSpec;
use vstd::slice::SliceIndexSpec;
verus! {
global size_of usize == 8;
//@include prelude/std_contracts.rs
//@include prelude/dgw_usize.rs
//@include prelude/binary_heap.rs
//@include prelude/dijkstra_pred_std.rs
//@include speclib/graph.rs
//@include speclib/dijkstra_lemmas.rs
//@include speclib/dijkstra_pred_lemmas.rs

/// x is among the out-neighbours still to come
spec fn later<'b>(nb: Seq<(usize, &'b usize)>, idx: int, x: int) -> bool {
    exists|i: int| idx <= i < nb.len() && (#[trigger] nb[i]).0 == x
}
/// the out_neighbors_weighted contract of vertex u, over the whole item sequence
spec fn nbrs_ok<'b>(dg: &Dgw, u: int, nb: Seq<(usize, &'b usize)>) -> bool {
    forall|i: int| 0 <= i < nb.len() ==> dg.has(u, (#[trigger] nb[i]).0 as int) && *nb[i].1 == dg.wt(u, nb[i].0 as int)
}

// =============================================================================================
// predecessor tree: spec functions and lemmas of units/predecessor_tree.rs (verbatim copy)
// =============================================================================================
// ---------------------------------------------------------------------------------------------
// abstraction: the predecessor vector as a partial function, k-fold predecessor, predicate answers
// ---------------------------------------------------------------------------------------------

/// every entry is None or an in-range vertex (the hypothesis of C19; NOT assumed for memory safety)
spec fn entries_in_range(pr: Seq<Option<usize>>) -> bool {
    forall|i: int| 0 <= i < pr.len() ==> (#[trigger] pr[i] matches Some(u) ==> u < pr.len())
}

/// the vertex reached from `s` after following `k` predecessor links; None once the chain has ended
/// (an entry None, or a vertex that is not in the tree and therefore has no predecessor entry)
spec fn chain(pr: Seq<Option<usize>>, s: usize, k: nat) -> Option<usize>
    decreases k,
{
    if k == 0 {
        Some(s)
    } else {
        match chain(pr, s, (k - 1) as nat) {
            Some(u) => if u < pr.len() { pr[u as int] } else { None },
            None => None,
        }
    }
}

/// "calling f on (a, its predecessor entry b) can return r"
spec fn says<F: Fn(&usize, &Option<usize>) -> bool>(f: F, a: usize, b: Option<usize>, r: bool) -> bool {
    f.ensures((&a, &b), r)
}

spec fn callable<F: Fn(&usize, &Option<usize>) -> bool>(f: F) -> bool {
    forall|a: usize, b: Option<usize>| #[trigger] f.requires((&a, &b))
}

spec fn deterministic<F: Fn(&usize, &Option<usize>) -> bool>(f: F) -> bool {
    forall|a: usize, b: Option<usize>, r1: bool, r2: bool|
        #[trigger] says(f, a, b, r1) && #[trigger] says(f, a, b, r2) ==> r1 == r2
}

/// the k-th vertex of the chain exists, is a vertex of the tree, and the predicate accepts it
spec fn pos_at<F: Fn(&usize, &Option<usize>) -> bool>(pr: Seq<Option<usize>>, f: F, s: usize, k: nat) -> bool {
    match chain(pr, s, k) {
        Some(u) => u < pr.len() && says(f, u, pr[u as int], true),
        None => false,
    }
}

/// the k-th vertex of the chain, if it exists and is a vertex of the tree, is rejected by the predicate
spec fn neg_at<F: Fn(&usize, &Option<usize>) -> bool>(pr: Seq<Option<usize>>, f: F, s: usize, k: nat) -> bool {
    match chain(pr, s, k) {
        Some(u) => u < pr.len() ==> says(f, u, pr[u as int], false),
        None => true,
    }
}

/// k is the first position of the chain accepted by the predicate
spec fn first_hit<F: Fn(&usize, &Option<usize>) -> bool>(pr: Seq<Option<usize>>, f: F, s: usize, k: nat) -> bool {
    pos_at(pr, f, s, k) && forall|j: nat| #![trigger chain(pr, s, j)] j < k ==> neg_at(pr, f, s, j)
}

/// p is exactly chain(0), ..., chain(k)
spec fn is_prefix(pr: Seq<Option<usize>>, s: usize, k: nat, p: Seq<usize>) -> bool {
    p.len() == k + 1 && forall|i: int| 0 <= i <= k ==> chain(pr, s, i as nat) == Some(#[trigger] p[i])
}

/// p starts at s, stays inside the tree and each element is the predecessor of the one before it
spec fn link_path(pr: Seq<Option<usize>>, s: usize, p: Seq<usize>) -> bool {
    &&& p.len() > 0
    &&& p[0] == s
    &&& forall|i: int| 0 <= i < p.len() ==> #[trigger] p[i] < pr.len()
    &&& forall|i: int| 0 < i < p.len() ==> #[trigger] link(pr, p, i)
}

/// p[i] is the predecessor of p[i - 1]
spec fn link(pr: Seq<Option<usize>>, p: Seq<usize>, i: int) -> bool {
    pr[p[i - 1] as int] == Some(p[i])
}

spec fn distinct(p: Seq<usize>) -> bool {
    forall|i: int, j: int| 0 <= i < j < p.len() ==> p[i] != p[j]
}

/// x was marked: it is chain(i) for some 1 <= i <= k
spec fn seen(pr: Seq<Option<usize>>, s: usize, k: nat, x: usize) -> bool {
    exists|i: nat| 1 <= i <= k && chain(pr, s, i) == Some(x)
}

/// state after walking a self-loop `pred[s] == Some(s)`: the vertex was not pushed again; the next
/// iteration necessarily leaves the loop through the `visited` test
spec fn dead(pr: Seq<Option<usize>>, s0: usize, k: nat, s: usize, vis: Seq<bool>) -> bool {
    &&& k >= 1
    &&& s < pr.len()
    &&& s < vis.len()
    &&& chain(pr, s0, (k - 1) as nat) == Some(s)
    &&& pr[s as int] == Some(s)
    &&& vis[s as int]
}

spec fn count_false(v: Seq<bool>) -> nat
    decreases v.len(),
{
    if v.len() == 0 {
        0
    } else {
        count_false(v.drop_last()) + if v.last() { 0nat } else { 1nat }
    }
}

// ---------------------------------------------------------------------------------------------
// lemmas
// ---------------------------------------------------------------------------------------------

proof fn lemma_count_false_update(v: Seq<bool>, i: int)
    requires 0 <= i < v.len(), !v[i],
    ensures count_false(v.update(i, true)) < count_false(v),
    decreases v.len(),
{
    let w = v.update(i, true);
    if i == v.len() - 1 {
        assert(w.drop_last() =~= v.drop_last());
    } else {
        assert(w.drop_last() =~= v.drop_last().update(i, true));
        lemma_count_false_update(v.drop_last(), i);
    }
}

/// while the chain is alive at k, every earlier position is a vertex of the tree
proof fn lemma_chain_alive_before(pr: Seq<Option<usize>>, s: usize, k: nat, j: nat)
    requires chain(pr, s, k) is Some, j < k,
    ensures chain(pr, s, j) matches Some(u) && u < pr.len(),
    decreases k,
{
    if j + 1 < k {
        lemma_chain_alive_before(pr, s, (k - 1) as nat, j);
    }
}

/// once the chain has ended (None, or left the tree) it stays ended
proof fn lemma_chain_ended_after(pr: Seq<Option<usize>>, s: usize, k: nat, n: nat)
    requires
        chain(pr, s, k) matches Some(u) ==> u >= pr.len(),
        n > k,
    ensures chain(pr, s, n) is None,
    decreases n,
{
    if n > k + 1 {
        lemma_chain_ended_after(pr, s, k, (n - 1) as nat);
    }
}

/// chain(i) == chain(i + p)  ==>  chain(i + m) == chain(i + p + m)
proof fn lemma_periodic(pr: Seq<Option<usize>>, s: usize, i: nat, p: nat, m: nat)
    requires chain(pr, s, i) == chain(pr, s, i + p),
    ensures chain(pr, s, i + m) == chain(pr, s, i + p + m),
    decreases m,
{
    if m > 0 {
        lemma_periodic(pr, s, i, p, (m - 1) as nat);
        assert(chain(pr, s, (i + m - 1) as nat) == chain(pr, s, (i + p + m - 1) as nat));
    }
}

/// the chain ended right after position k and nothing up to k was accepted: nothing is ever accepted
proof fn lemma_ended_all_neg<F: Fn(&usize, &Option<usize>) -> bool>(pr: Seq<Option<usize>>, f: F, s: usize, k: nat)
    requires
        forall|j: nat| j <= k ==> neg_at(pr, f, s, j),
        chain(pr, s, k + 1) matches Some(u) ==> u >= pr.len(),
    ensures
        forall|n: nat| neg_at(pr, f, s, n),
{
    assert forall|n: nat| neg_at(pr, f, s, n) by {
        if n > k + 1 {
            lemma_chain_ended_after(pr, s, k + 1, n);
        }
    }
}

/// position k+1 revisits position i <= k and nothing up to k was accepted: nothing is ever accepted
proof fn lemma_cycle_neg<F: Fn(&usize, &Option<usize>) -> bool>(pr: Seq<Option<usize>>, f: F, s: usize, k: nat, i: nat, n: nat)
    requires
        forall|j: nat| j <= k ==> neg_at(pr, f, s, j),
        i <= k,
        chain(pr, s, k + 1) == chain(pr, s, i),
    ensures
        neg_at(pr, f, s, n),
    decreases n,
{
    if n > k {
        let p = (k + 1 - i) as nat;
        let m = (n - p - i) as nat;
        lemma_periodic(pr, s, i, p, m);
        assert(i + m == n - p && i + p + m == n);
        lemma_cycle_neg(pr, f, s, k, i, (n - p) as nat);
    }
}

proof fn lemma_cycle_all_neg<F: Fn(&usize, &Option<usize>) -> bool>(pr: Seq<Option<usize>>, f: F, s: usize, k: nat, i: nat)
    requires
        forall|j: nat| j <= k ==> neg_at(pr, f, s, j),
        i <= k,
        chain(pr, s, k + 1) == chain(pr, s, i),
    ensures
        forall|n: nat| neg_at(pr, f, s, n),
{
    assert forall|n: nat| neg_at(pr, f, s, n) by {
        lemma_cycle_neg(pr, f, s, k, i, n);
    }
}

/// the readable consequences of "p is the chain up to its first accepted position"
proof fn lemma_first_hit_path<F: Fn(&usize, &Option<usize>) -> bool>(pr: Seq<Option<usize>>, f: F, s: usize, k: nat, p: Seq<usize>)
    requires
        deterministic(f),
        first_hit(pr, f, s, k),
        is_prefix(pr, s, k, p),
    ensures
        link_path(pr, s, p),
        says(f, p.last(), pr[p.last() as int], true),
        forall|i: int| 0 <= i < p.len() - 1 ==> says(f, #[trigger] p[i], pr[p[i] as int], false),
        distinct(p),
{
    assert(chain(pr, s, 0) == Some(p[0]));
    assert(chain(pr, s, k) == Some(p[k as int]));
    assert forall|i: int| 0 <= i < p.len() implies #[trigger] p[i] < pr.len() by {
        assert(chain(pr, s, i as nat) == Some(p[i]));
        if i < k {
            lemma_chain_alive_before(pr, s, k, i as nat);
        }
    }
    assert forall|i: int| 0 < i < p.len() implies #[trigger] link(pr, p, i) by {
        assert(chain(pr, s, i as nat) == Some(p[i]));
        assert(chain(pr, s, (i - 1) as nat) == Some(p[i - 1]));
    }
    assert forall|i: int| 0 <= i < p.len() - 1 implies says(f, #[trigger] p[i], pr[p[i] as int], false) by {
        assert(chain(pr, s, i as nat) == Some(p[i]));
        assert(neg_at(pr, f, s, i as nat));
    }
    assert forall|i: int, j: int| 0 <= i < j < p.len() implies p[i] != p[j] by {
        if p[i] == p[j] {
            assert(chain(pr, s, i as nat) == Some(p[i]));
            assert(chain(pr, s, j as nat) == Some(p[j]));
            let per = (j - i) as nat;
            let m = (k - j) as nat;
            assert(i as nat + per == j as nat);
            lemma_periodic(pr, s, i as nat, per, m);
            let e = (i + m) as nat;
            assert(i as nat + per + m == k);
            assert(chain(pr, s, e) == chain(pr, s, k));
            assert(e < k);
            assert(neg_at(pr, f, s, e));
            assert(pos_at(pr, f, s, k));
        }
    }
}


/// the predicate rejects every vertex of the tree that the chain from s ever reaches
spec fn never<F: Fn(&usize, &Option<usize>) -> bool>(pr: Seq<Option<usize>>, f: F, s: usize) -> bool {
    forall|n: nat| #![trigger chain(pr, s, n)] neg_at(pr, f, s, n)
}

/// what the Some(path) answer means (chain form + readable form)
#[verifier::opaque]
spec fn found<F: Fn(&usize, &Option<usize>) -> bool>(pr: Seq<Option<usize>>, f: F, s: usize, p: Seq<usize>) -> bool {
    &&& exists|k: nat| first_hit(pr, f, s, k) && is_prefix(pr, s, k, p)
    &&& link_path(pr, s, p)
    &&& says(f, p.last(), pr[p.last() as int], true)
    &&& forall|i: int| 0 <= i < p.len() - 1 ==> says(f, #[trigger] p[i], pr[p[i] as int], false)
    &&& distinct(p)
}

/// loop invariant of search_by (k = number of links followed so far, a ghost counter)
#[verifier::opaque]
spec fn inv<F: Fn(&usize, &Option<usize>) -> bool>(pr: Seq<Option<usize>>, f: F, s0: usize, k: nat, s: usize, vis: Seq<bool>, path: Seq<usize>) -> bool {
    &&& s0 < pr.len()
    &&& s < pr.len()
    &&& vis.len() == pr.len()
    &&& chain(pr, s0, k) == Some(s)
    &&& forall|j: nat| j < k ==> neg_at(pr, f, s0, j)
    &&& forall|x: int| 0 <= x < vis.len() && #[trigger] vis[x] ==> seen(pr, s0, k, x as usize)
    &&& (dead(pr, s0, k, s, vis) || is_prefix(pr, s0, k, path))
}

proof fn lemma_init<F: Fn(&usize, &Option<usize>) -> bool>(pr: Seq<Option<usize>>, f: F, s0: usize, vis: Seq<bool>, path: Seq<usize>)
    requires
        s0 < pr.len(),
        vis.len() == pr.len(),
        forall|x: int| 0 <= x < vis.len() ==> !vis[x],
        path.len() == 1,
        path[0] == s0,
    ensures
        inv(pr, f, s0, 0, s0, vis, path),
{
    reveal(inv);
    assert(chain(pr, s0, 0) == Some(s0));
    assert(is_prefix(pr, s0, 0, path));
}

/// the predicate accepted the current vertex: the path built so far is the answer
proof fn lemma_hit<F: Fn(&usize, &Option<usize>) -> bool>(pr: Seq<Option<usize>>, f: F, s0: usize, k: nat, s: usize, vis: Seq<bool>, path: Seq<usize>)
    requires
        inv(pr, f, s0, k, s, vis, path),
        deterministic(f),
        s < pr.len(),
        says(f, s, pr[s as int], true),
    ensures
        found(pr, f, s0, path),
{
    reveal(inv);
    if dead(pr, s0, k, s, vis) {
        assert(neg_at(pr, f, s0, (k - 1) as nat));
        assert(says(f, s, pr[s as int], false));
        assert(false);
    }
    assert(pos_at(pr, f, s0, k));
    assert(first_hit(pr, f, s0, k));
    lemma_first_hit_path(pr, f, s0, k, path);
    reveal(found);
}

proof fn lemma_miss<F: Fn(&usize, &Option<usize>) -> bool>(pr: Seq<Option<usize>>, f: F, s0: usize, k: nat, s: usize, vis: Seq<bool>, path: Seq<usize>)
    requires
        inv(pr, f, s0, k, s, vis, path),
        s < pr.len(),
        says(f, s, pr[s as int], false),
    ensures
        forall|j: nat| j <= k ==> neg_at(pr, f, s0, j),
        chain(pr, s0, k + 1) == pr[s as int],
{
    reveal(inv);
    assert(neg_at(pr, f, s0, k));
    assert(chain(pr, s0, (k + 1 - 1) as nat) == Some(s));
}

/// leaving the loop because the chain ended (entry None, or an entry that is not a vertex of the tree)
proof fn lemma_break_ended<F: Fn(&usize, &Option<usize>) -> bool>(pr: Seq<Option<usize>>, f: F, s0: usize, k: nat, s: usize, vis: Seq<bool>, path: Seq<usize>)
    requires
        inv(pr, f, s0, k, s, vis, path),
        s < pr.len(),
        says(f, s, pr[s as int], false),
        pr[s as int] matches Some(v) ==> v >= pr.len(),
    ensures
        never(pr, f, s0),
{
    lemma_miss(pr, f, s0, k, s, vis, path);
    lemma_ended_all_neg(pr, f, s0, k);
}

/// leaving the loop because the next vertex is marked: the chain has entered a cycle that was inspected completely
proof fn lemma_break_visited<F: Fn(&usize, &Option<usize>) -> bool>(pr: Seq<Option<usize>>, f: F, s0: usize, k: nat, s: usize, vis: Seq<bool>, path: Seq<usize>, v: usize)
    requires
        inv(pr, f, s0, k, s, vis, path),
        s < pr.len(),
        says(f, s, pr[s as int], false),
        pr[s as int] == Some(v),
        v < vis.len(),
        vis[v as int],
    ensures
        never(pr, f, s0),
{
    lemma_miss(pr, f, s0, k, s, vis, path);
    assert(seen(pr, s0, k, v)) by { reveal(inv); }
    let i = choose|i: nat| 1 <= i <= k && chain(pr, s0, i) == Some(v);
    lemma_cycle_all_neg(pr, f, s0, k, i);
}

/// following one more link
proof fn lemma_step<F: Fn(&usize, &Option<usize>) -> bool>(pr: Seq<Option<usize>>, f: F, s0: usize, k: nat, s: usize, vis: Seq<bool>, path: Seq<usize>, v: usize)
    requires
        inv(pr, f, s0, k, s, vis, path),
        s < pr.len(),
        says(f, s, pr[s as int], false),
        pr[s as int] == Some(v),
        v < pr.len(),
        v < vis.len(),
        !vis[v as int],
    ensures
        inv(pr, f, s0, k + 1, v, vis.update(v as int, true), if v != s { path.push(v) } else { path }),
        count_false(vis.update(v as int, true)) < count_false(vis),
{
    lemma_miss(pr, f, s0, k, s, vis, path);
    reveal(inv);
    let vis2 = vis.update(v as int, true);
    let path2 = if v != s { path.push(v) } else { path };
    lemma_count_false_update(vis, v as int);
    assert(!dead(pr, s0, k, s, vis));
    assert(chain(pr, s0, k + 1) == Some(v));
    assert forall|j: nat| j < k + 1 implies neg_at(pr, f, s0, j) by {}
    assert forall|x: int| 0 <= x < vis2.len() && #[trigger] vis2[x] implies seen(pr, s0, k + 1, x as usize) by {
        if x == v {
            assert(1 <= k + 1 <= k + 1 && chain(pr, s0, k + 1) == Some(x as usize));
        } else {
            assert(vis[x]);
            assert(seen(pr, s0, k, x as usize));
            let i = choose|i: nat| 1 <= i <= k && chain(pr, s0, i) == Some(x as usize);
            assert(1 <= i <= k + 1 && chain(pr, s0, i) == Some(x as usize));
        }
    }
    if v != s {
        assert(is_prefix(pr, s0, k + 1, path2));
    } else {
        assert(chain(pr, s0, ((k + 1) - 1) as nat) == Some(v));
        assert(dead(pr, s0, k + 1, v, vis2));
    }
}

// =============================================================================================
// C05: what the two drivers promise
// =============================================================================================

spec fn ints(p: Seq<usize>) -> Seq<int> { p.map_values(|x: usize| x as int) }

/// the arc q -> v is tight: exact distance of q + w(q, v) == exact distance of v
spec fn tight(dg: &Dgw, s: Set<int>, q: int, v: int) -> bool {
    exists|dq: int, dv: int| is_min_walk_weight(has_of(dg), wt_of(dg), s, q, dq) && is_min_walk_weight(has_of(dg), wt_of(dg), s, v, dv)
        && dq + dg.wt(q, v) == dv
}
/// C05, first sentence (pr = the returned predecessor vector, s = the source set)
spec fn pred_tree_ok(dg: &Dgw, s: Set<int>, pr: Seq<Option<usize>>) -> bool {
    &&& pr.len() == dg.ord()
    // sources and unreachable vertices have no predecessor
    &&& forall|v: int| #![trigger pr[v]] 0 <= v < pr.len() && (s.contains(v) || !reachable(has_of(dg), s, v)) ==> pr[v] is None
    // every other reachable vertex v has a predecessor q: q -> v is an arc and dist(q) + w(q, v) == dist(v)
    &&& forall|v: int| 0 <= v < pr.len() && !s.contains(v) && #[trigger] reachable(has_of(dg), s, v)
            ==> (pr[v] matches Some(q) && q < pr.len() && dg.has(q as int, v) && tight(dg, s, q as int, v))
    // following predecessors from v reaches a source along a shortest path
    &&& forall|v: int| 0 <= v < pr.len() && #[trigger] reachable(has_of(dg), s, v)
            ==> exists|p: Seq<int>| tree_path(pr, p) && walk_from_to(has_of(dg), s, v, p)
                && is_min_walk_weight(has_of(dg), wt_of(dg), s, v, walk_weight(wt_of(dg), p))
}

spec fn tgt_callable<P: Fn(usize) -> bool>(f: P) -> bool {
    forall|v: usize| #[trigger] f.requires((v,))
}
spec fn tgt_says<P: Fn(usize) -> bool>(f: P, v: usize, r: bool) -> bool { f.ensures((v,), r) }
spec fn tgt_det<P: Fn(usize) -> bool>(f: P) -> bool {
    forall|v: usize, r1: bool, r2: bool| #[trigger] tgt_says(f, v, r1) && #[trigger] tgt_says(f, v, r2) ==> r1 == r2
}
/// vertex t satisfies the predicate
spec fn tgt<P: Fn(usize) -> bool>(f: P, t: int) -> bool { 0 <= t <= usize::MAX && tgt_says(f, t as usize, true) }

/// C05, second sentence, the Some case: path is a walk from a source to a target t, of minimum weight for t, and no
/// walk from a source to any target weighs less
spec fn sp_ok<P: Fn(usize) -> bool>(dg: &Dgw, s: Set<int>, f: P, path: Seq<usize>) -> bool {
    let wk = ints(path);
    let t = wk.last();
    &&& path.len() >= 1
    &&& 0 <= t < dg.ord()
    &&& tgt(f, t)
    &&& walk_from_to(has_of(dg), s, t, wk)
    &&& is_min_walk_weight(has_of(dg), wt_of(dg), s, t, walk_weight(wt_of(dg), wk))
    &&& forall|t2: int| 0 <= t2 < dg.ord() && #[trigger] tgt(f, t2) ==> is_lower_bound(has_of(dg), wt_of(dg), s, t2, walk_weight(wt_of(dg), wk))
}

proof fn lemma_pred_final(dg: &Dgw, d: Seq<usize>, h: Multiset<HItem>, s: Set<int>, em: Seq<(usize, usize)>, pr: Seq<Option<usize>>)
    requires dj_inv(dg, d, h, s), h.len() == 0, trace_inv(dg, d, h, s, em), tree_inv(dg, s, em, pr),
    ensures pred_tree_ok(dg, s, pr),
{
    let has = has_of(dg); let w = wt_of(dg);
    lemma_trace_final(dg, d, h, s, em);
    assert forall|v: int| #![trigger pr[v]] 0 <= v < pr.len() && (s.contains(v) || !reachable(has, s, v)) implies pr[v] is None by {
        if emitted(em, v) {
            let i = choose|i: int| 0 <= i < em.len() && (#[trigger] em[i]).0 == v;
            assert(tree_at(dg, s, em, pr, i));
            assert(reachable(has, s, em[i].0 as int));
        }
    }
    assert forall|v: int| 0 <= v < pr.len() && !s.contains(v) && #[trigger] reachable(has, s, v)
        implies (pr[v] matches Some(q) && q < pr.len() && dg.has(q as int, v) && tight(dg, s, q as int, v)) by {
        assert(emitted(em, v));
        let i = choose|i: int| 0 <= i < em.len() && (#[trigger] em[i]).0 == v;
        assert(tree_at(dg, s, em, pr, i));
        let q = pr[v]->0;
        let j = choose|j: int| 0 <= j < i && (#[trigger] em[j]).0 == q && em[j].1 + dg.wt(q as int, em[i].0 as int) == em[i].1;
        assert(is_min_walk_weight(has, w, s, em[j].0 as int, em[j].1 as int));
        assert(is_min_walk_weight(has, w, s, em[i].0 as int, em[i].1 as int));
        assert(is_min_walk_weight(has, w, s, q as int, em[j].1 as int) && is_min_walk_weight(has, w, s, v, em[i].1 as int)
            && em[j].1 as int + dg.wt(q as int, v) == em[i].1 as int);
    }
    assert forall|v: int| 0 <= v < pr.len() && #[trigger] reachable(has, s, v)
        implies exists|p: Seq<int>| tree_path(pr, p) && walk_from_to(has, s, v, p) && is_min_walk_weight(has, w, s, v, walk_weight(w, p)) by {
        assert(emitted(em, v));
        let i = choose|i: int| 0 <= i < em.len() && (#[trigger] em[i]).0 == v;
        lemma_tree_path(dg, s, em, pr, i);
        let p = choose|p: Seq<int>| tree_path(pr, p) && walk_from_to(has, s, em[i].0 as int, p) && walk_weight(w, p) == em[i].1;
        assert(is_min_walk_weight(has, w, s, em[i].0 as int, em[i].1 as int));
        assert(tree_path(pr, p) && walk_from_to(has, s, v, p) && is_min_walk_weight(has, w, s, v, walk_weight(w, p)));
    }
}

// ---- the predecessor chain of search_by against the table ----
proof fn lemma_chain_shift(pr: Seq<Option<usize>>, v: usize, q: usize, m: nat)
    requires v < pr.len(), pr[v as int] == Some(q),
    ensures chain(pr, v, m + 1) == chain(pr, q, m),
    decreases m,
{
    if m > 0 {
        lemma_chain_shift(pr, v, q, (m - 1) as nat);
        assert(chain(pr, v, ((m + 1) - 1) as nat) == chain(pr, q, (m - 1) as nat));
    } else {
        assert(chain(pr, v, 0) == Some(v));
    }
}
/// the n-th vertex of the chain from v is a vertex of the tree without predecessor
spec fn root_at(pr: Seq<Option<usize>>, v: usize, n: nat) -> bool {
    chain(pr, v, n) matches Some(u) && u < pr.len() && pr[u as int] is None
}
/// the chain from a yielded vertex ends (predecessors were yielded strictly earlier)
proof fn lemma_chain_root(dg: &Dgw, s: Set<int>, em: Seq<(usize, usize)>, pr: Seq<Option<usize>>, i: int)
    requires tree_inv(dg, s, em, pr), 0 <= i < em.len(),
    ensures exists|n: nat| root_at(pr, em[i].0, n),
    decreases i,
{
    let v = em[i].0;
    assert(tree_at(dg, s, em, pr, i));
    match pr[v as int] {
        None => { assert(root_at(pr, v, 0)); }
        Some(q) => {
            let j = choose|j: int| 0 <= j < i && (#[trigger] em[j]).0 == q && em[j].1 + dg.wt(q as int, em[i].0 as int) == em[i].1;
            lemma_chain_root(dg, s, em, pr, j);
            let n = choose|n: nat| root_at(pr, q, n);
            lemma_chain_shift(pr, v, q, n);
            assert(root_at(pr, v, n + 1));
        }
    }
}
/// a predecessor chain from the i-th yielded vertex down to a vertex without predecessor, reversed, is a walk from
/// a source whose weight is the i-th yielded key
proof fn lemma_link_walk(dg: &Dgw, s: Set<int>, em: Seq<(usize, usize)>, pr: Seq<Option<usize>>, p: Seq<usize>, i: int)
    requires dg.wf(), tree_inv(dg, s, em, pr), 0 <= i < em.len(), link_path(pr, em[i].0, p), pr[p.last() as int] is None,
    ensures
        walk_from_to(has_of(dg), s, em[i].0 as int, ints(p.reverse())),
        walk_weight(wt_of(dg), ints(p.reverse())) == em[i].1,
    decreases p.len(),
{
    let has = has_of(dg); let w = wt_of(dg);
    let v = em[i].0;
    let rp = ints(p.reverse());
    assert(tree_at(dg, s, em, pr, i));
    if p.len() == 1 {
        assert(rp =~= seq![v as int]);
        lemma_walk_single(has, w, v as int);
    } else {
        assert(link(pr, p, 1));
        let q = p[1];
        let j = choose|j: int| 0 <= j < i && (#[trigger] em[j]).0 == q && em[j].1 + dg.wt(q as int, em[i].0 as int) == em[i].1;
        let p2 = p.subrange(1, p.len() as int);
        assert forall|a: int| 0 < a < p2.len() implies #[trigger] link(pr, p2, a) by { assert(link(pr, p, a + 1)); }
        assert forall|a: int| 0 <= a < p2.len() implies #[trigger] p2[a] < pr.len() by { assert(p2[a] == p[a + 1]); }
        assert(link_path(pr, q, p2));
        assert(p2.last() == p.last());
        lemma_link_walk(dg, s, em, pr, p2, j);
        let r2 = ints(p2.reverse());
        assert(r2.last() == q as int);
        lemma_walk_extend(has, w, r2, v as int);
        assert(rp =~= r2.push(v as int));
    }
}

// =============================================================================================
// the code under contract
// =============================================================================================

/*@type name=Step @*/

/*@struct name=DijkstraPred subst=D=>Dgw drop=D @*/

//@file src/algo/predecessor_tree.rs
/*@struct name=PredecessorTree @*/

impl PredecessorTree {
    // contracts of units/predecessor_tree.rs, re-extracted so that the callers below see them
    /*@fn impl=PredecessorTree name=new props=C19
    ensures
        order > 0,
        r.pred@.len() == order,
        forall|i: int| 0 <= i < order ==> r.pred@[i] is None,
    @*/

    #[verifier::loop_isolation(false)]
    /*@fn impl=PredecessorTree name=search_by props=C19 safeindex
    requires
        callable(is_target),
        deterministic(is_target),
    ensures
        s < self.pred.len(),
        match r {
            Some(p) => found(self.pred@, is_target, s, p@),
            None => never(self.pred@, is_target, s),
        },
    @fn_start
        let ghost s0 = s;
        let ghost pr = self.pred@;
    @before `return Some(vec![s])`
        proof {
            lemma_init(pr, is_target, s0, Seq::new(pr.len(), |i: int| false), seq![s0]);
            lemma_hit(pr, is_target, s0, 0, s0, Seq::new(pr.len(), |i: int| false), seq![s0]);
            assert forall|p: Seq<usize>| p.len() == 1 && p[0] == s0 implies #[trigger] found(pr, is_target, s0, p) by {
                assert(p =~= seq![s0]);
            }
        }
    @before `while let Some(&v)`
        let ghost mut k: nat = 0;
        proof {
            lemma_init(pr, is_target, s0, visited@, path@);
        }
    @loop 1
    invariant
        pr == self.pred@,
        callable(is_target),
        deterministic(is_target),
        s < pr.len(),
        visited@.len() == pr.len(),
        inv(pr, is_target, s0, k, s, visited@, path@),
    decreases
        count_false(visited@),
    @before `return Some(path)`
        proof {
            lemma_hit(pr, is_target, s0, k, s, visited@, path@);
        }
    @before `if let Some(v) = v`
        proof {
            // here is_target(s, pred[s]) has answered false; one proof step per way the iteration can go on
            match v {
                None => { lemma_break_ended(pr, is_target, s0, k, s, visited@, path@); }
                Some(w) => {
                    if w >= pr.len() {
                        lemma_break_ended(pr, is_target, s0, k, s, visited@, path@);
                    } else if visited@[w as int] {
                        lemma_break_visited(pr, is_target, s0, k, s, visited@, path@, w);
                    } else {
                        lemma_step(pr, is_target, s0, k, s, visited@, path@, w);
                    }
                }
            }
        }
    @after `s = v;`
        proof {
            k = k + 1;
        }
    @*/
}

//@file src/algo/dijkstra_pred.rs
impl<'a> DijkstraPred<'a> {
    /// the heap as a multiset of (key, (pred, vertex)) items
    spec fn raw(&self) -> Multiset<PItem> { heap_items(&self.heap) }
    /// ... and of (key, vertex) items
    spec fn items(&self) -> Multiset<HItem> { proj(heap_items(&self.heap)) }
    /// invariant between calls, for the source set s
    spec fn inv(&self, s: Set<int>) -> bool { djp_inv(self.digraph, self.dist@, self.raw(), s) }
    /// state as built by `new`: sources labelled 0 and pending once without predecessor, everything else unlabelled
    spec fn is_fresh(&self) -> bool { djp_fresh(self.digraph, self.dist@, self.raw()) }
    spec fn srcs(&self) -> Set<int> { srcs_of(self.dist@) }

    /*@fn impl=DijkstraPred name=new subst=D=>Dgw drop=D dropwhere=D
    requires
        digraph.wf(),
        sources.obeys_prophetic_iter_laws(),
        sources.decrease() is Some,
        sources.remaining().no_duplicates(),
    ensures
        r.digraph == digraph,
        r.is_fresh(),
        forall|v: int| #[trigger] r.srcs().contains(v) <==> 0 <= v <= usize::MAX && sources.remaining().contains(v as usize),
    @fn_start
        let ghost src0 = sources.remaining();
        let ghost mut done_src: Seq<usize> = Seq::empty();
    @after `let mut heap`
        proof { lemma_proj_empty(); }
    @loop 1
    invariant
        it1.iter.obeys_prophetic_iter_laws(),
        it1.iter.decrease() is Some,
        it1.seq() == src0,
        src0.no_duplicates(),
        digraph.wf(),
        order == digraph.ord(),
        dist@.len() == order,
        done_src == src0.take(it1.index@),
        projable(heap_items(&heap)),
        all_none(heap_items(&heap)),
        fresh_from(dist@, proj(heap_items(&heap)), done_src),
    @loop_start 1
        let ghost d_pre = dist@;
        let ghost r_pre = heap_items(&heap);
    @loop_end 1
        proof {
            assert(!done_src.contains(u)) by {
                if done_src.contains(u) {
                    let i = choose|i: int| 0 <= i < done_src.len() && done_src[i] == u;
                    assert(src0[i] == src0[it1.index@]);
                }
            }
            lemma_djp_fresh_step(d_pre, r_pre, done_src, u);
            assert(src0.take(it1.index@ + 1) =~= done_src.push(u));
            done_src = done_src.push(u);
        }
    @fn_end
        proof {
            assert(done_src =~= src0);
            lemma_fresh_from_fresh(digraph, dist@, proj(heap_items(&heap)), src0);
        }
    @*/

    /*@fn impl=DijkstraPred trait=Iterator name=next subst=Self::Item=>(Option<usize>,usize)
    requires
        exists|s: Set<int>| old(self).inv(s),
    ensures
        final(self).digraph == old(self).digraph,
        forall|s: Set<int>| #[trigger] old(self).inv(s) ==> final(self).inv(s),
        r is None ==> final(self).items().len() == 0,
        r is None ==> trans(old(self).dist@, old(self).items(), final(self).dist@, final(self).items()),
        r matches Some(st) ==> st.1 < final(self).dist@.len() && final(self).dist@[st.1 as int] < usize::MAX
            && ret_rel(old(self).dist@, old(self).items(), final(self).dist@, final(self).items(), st.1 as int, final(self).dist@[st.1 as int] as int),
        r matches Some(st) ==> forall|s: Set<int>| #[trigger] old(self).inv(s)
            ==> is_min_walk_weight(has_of(old(self).digraph), wt_of(old(self).digraph), s, st.1 as int, final(self).dist@[st.1 as int] as int),
        r matches Some(st) ==> forall|s: Set<int>| #[trigger] old(self).inv(s)
            ==> step_pred_ok(old(self).digraph, old(self).dist@, old(self).items(), s, st.0, st.1 as int, final(self).dist@[st.1 as int] as int),
        r matches Some(st) ==> forall|s: Set<int>| #[trigger] old(self).inv(s)
            ==> pred_tight(old(self).digraph, s, st.0, st.1 as int, final(self).dist@[st.1 as int] as int),
        forall|s: Set<int>, em: Seq<(usize, usize)>| old(self).inv(s) && #[trigger] trace_inv(old(self).digraph, old(self).dist@, old(self).items(), s, em)
            ==> trace_inv(old(self).digraph, final(self).dist@, final(self).items(), s, match r { Some(st) => em.push((st.1, final(self).dist@[st.1 as int])), None => em }),
    @fn_start
        let ghost s0 = choose|s: Set<int>| old(self).inv(s);
        let ghost dg = self.digraph;
        let ghost d0 = self.dist@;
        let ghost h0 = self.items();
        proof { lemma_trans_refl(d0, h0); }
    @loop 1
    invariant
        self.digraph == dg,
        d0 == old(self).dist@, h0 == old(self).items(), dg == old(self).digraph,
        old(self).inv(s0),
        forall|s: Set<int>| #[trigger] old(self).inv(s) ==> self.inv(s),
        trans(d0, h0, self.dist@, self.items()),
    decreases
        dsum(self.dist@), self.items().len(),
    @loop_start 1
        let ghost dm = self.dist@;
        let ghost hm = self.items();
        let ghost rm = self.raw();
        proof {
            lemma_dsum_nonneg(dm);
            assert(self.inv(s0));
            lemma_proj_len(rm);
            assert forall|s: Set<int>, em: Seq<(usize, usize)>| old(self).inv(s) && #[trigger] trace_inv(dg, d0, h0, s, em) implies trace_inv(dg, dm, hm, s, em) by {
                lemma_trace_none(dg, d0, h0, dm, hm, s, em);
            }
        }
    @after `let (Reverse(distance), step`
        let ghost k0: usize = distance;
        let ghost x0: PItem = (Reverse(distance), step);
        let ghost it0: HItem = (Reverse(distance), v);
        let ghost ha = self.items();
        let ghost um: int = if dm[v as int] == distance { v as int } else { -1 };
        let ghost mut seen: Set<int> = Set::empty();
        proof {
            broadcast use axiom_ord_le_reverse_key;
            assert(step.1 == v);
            assert(pi(x0) == it0);
            assert(rm.count(x0) > 0 && self.raw() == rm.remove(x0));
            assert forall|y: PItem| #[trigger] rm.count(y) > 0 implies y.0.0 >= x0.0.0 by { assert(ord_le(y, x0)); }
            assert(djp_inv(dg, dm, rm, s0));
            lemma_djp_pop(dg, dm, rm, s0, x0);
            assert forall|s: Set<int>| #[trigger] old(self).inv(s) implies djp_inv_x(dg, self.dist@, self.raw(), s, um, seen)
                && has_pwit(dg, self.dist@, s, v as int, k0 as int) && step_pred_ok(dg, d0, h0, s, step.0, v as int, k0 as int)
                && pred_tight(dg, s, step.0, v as int, k0 as int) by {
                lemma_djp_pop(dg, dm, rm, s, x0);
                lemma_step_pred(dg, d0, h0, dm, hm, s, x0);
                lemma_pred_tight(dg, dm, hm, s, x0);
            }
            lemma_relax_rel_refl(dm, ha, k0 as int);
            assert(keys_ge(ha, k0 as int)) by {
                assert forall|j: HItem| #[trigger] ha.count(j) > 0 implies j.0.0 >= k0 by { assert(hm.count(j) > 0); }
            }
        }
    @loop 2
    invariant
        it2.iter.obeys_prophetic_iter_laws(),
        it2.iter.decrease() is Some,
        self.digraph == dg, dg.wf(),
        d0 == old(self).dist@, h0 == old(self).items(), dg == old(self).digraph,
        old(self).inv(s0),
        dm.len() == dg.ord(), self.dist@.len() == dg.ord(), v < dg.ord(),
        distance == k0, step.1 == v,
        it0 == (Reverse(k0), v),
        trans(d0, h0, dm, hm), hm.count(it0) > 0, ha == hm.remove(it0), keys_ge(hm, k0 as int),
        forall|j: HItem| #[trigger] hm.count(j) <= 1,
        dm[v as int] <= k0, self.dist@[v as int] <= k0,
        um == -1 || (um == v && self.dist@[v as int] == k0),
        um == -1 ==> dm[v as int] < k0,
        um == v ==> !pending(self.dist@, self.items(), v as int),
        nbrs_ok(dg, v as int, it2.seq()),
        forall|y: int| #[trigger] dg.has(v as int, y) ==> seen.contains(y) || later(it2.seq(), it2.index@, y),
        forall|s: Set<int>| #[trigger] old(self).inv(s) ==> djp_inv_x(dg, self.dist@, self.raw(), s, um, seen)
            && has_pwit(dg, self.dist@, s, v as int, k0 as int) && step_pred_ok(dg, d0, h0, s, step.0, v as int, k0 as int)
                && pred_tight(dg, s, step.0, v as int, k0 as int),
        relax_rel(dm, ha, self.dist@, self.items(), k0 as int),
        keys_ge(self.items(), k0 as int),
        done_le(self.dist@, self.items(), k0 as int),
    @before `let distance = distance.saturating_add`
        let ghost dpre = self.dist@;
        let ghost hpre = self.items();
        let ghost rpre = self.raw();
        proof {
            assert((x, w) == it2.seq()[it2.index@]);
            assert(dg.has(v as int, x as int) && *w == dg.wt(v as int, x as int));
            lemma_extend_pwit(dg, dpre, s0, v as int, k0 as int, x as int);
        }
    @loop_end 2
        proof {
            if distance < dpre[x as int] {
                if um == -1 {
                    assert(rr_vert(dm, dpre, hpre, v as int));
                    lemma_stale(dg, dpre, hpre, s0, seen, v as int, k0 as int, x as int);
                }
                assert(um == v);
                assert forall|s: Set<int>| #[trigger] old(self).inv(s) implies djp_inv_x(dg, self.dist@, self.raw(), s, um, seen.insert(x as int))
                    && has_pwit(dg, self.dist@, s, v as int, k0 as int) by {
                    lemma_djp_update(dg, dpre, rpre, s, seen, v as int, k0, x as int, distance);
                }
                lemma_djp_update(dg, dpre, rpre, s0, seen, v as int, k0, x as int, distance);
                lemma_relax_rel_step(dm, ha, dpre, hpre, k0 as int, x as int, distance);
                assert(keys_ge(self.items(), k0 as int)) by {
                    assert forall|j: HItem| #[trigger] self.items().count(j) > 0 implies j.0.0 >= k0 by {
                        if j != (Reverse(distance), x) { assert(hpre.count(j) > 0); }
                    }
                }
            } else {
                assert forall|s: Set<int>| #[trigger] old(self).inv(s) implies djp_inv_x(dg, self.dist@, self.raw(), s, um, seen.insert(x as int)) by {
                    lemma_djp_skip(dg, dpre, rpre, s, um, seen, v as int, k0, x as int);
                }
            }
            assert forall|y: int| #[trigger] dg.has(v as int, y) implies seen.insert(x as int).contains(y) || later(it2.seq(), it2.index@ + 1, y) by {
                if y != x && !seen.contains(y) {
                    let i = choose|i: int| it2.index@ <= i < it2.seq().len() && (#[trigger] it2.seq()[i]).0 == y;
                    assert(i != it2.index@);
                }
            }
            seen = seen.insert(x as int);
        }
    @before `if distance ==`
        proof {
            assert forall|y: int| dg.has(um, y) implies seen.contains(y) by {
                if um == v as int { assert(dg.has(v as int, y)); }
            }
            assert forall|s: Set<int>| #[trigger] old(self).inv(s) implies self.inv(s) by {
                lemma_djp_done(dg, self.dist@, self.raw(), s, um, seen, k0 as int);
            }
            lemma_compose(d0, h0, dm, hm, it0, self.dist@, self.items());
            lemma_dsum_nonneg(self.dist@);
            if k0 == self.dist@[v as int] {
                lemma_pwit_fits(dg, self.dist@, s0, v as int, k0 as int);
                assert forall|s: Set<int>| #[trigger] old(self).inv(s) implies is_min_walk_weight(has_of(dg), wt_of(dg), s, v as int, k0 as int) by {
                    lemma_settled(dg, self.dist@, self.items(), s, v as int, k0 as int);
                }
                assert forall|s: Set<int>, em: Seq<(usize, usize)>| old(self).inv(s) && #[trigger] trace_inv(dg, d0, h0, s, em) implies trace_inv(dg, self.dist@, self.items(), s, em.push((v, k0))) by {
                    lemma_settled(dg, self.dist@, self.items(), s, v as int, k0 as int);
                    lemma_trace_ret(dg, d0, h0, self.dist@, self.items(), s, em, v, k0);
                }
            }
        }
    @*/

    /*@fn impl=DijkstraPred name=predecessors subst=D=>Dgw dropwhere=D
    requires
        old(self).is_fresh(),
        paths_fit(old(self).digraph, old(self).srcs()),
    ensures
        pred_tree_ok(old(self).digraph, old(self).srcs(), r.pred@),
    @fn_start
        let ghost s = self.srcs();
        let ghost dg = self.digraph;
        let ghost mut em: Seq<(usize, usize)> = Seq::empty();
        proof { lemma_djp_fresh_inv(dg, self.dist@, self.raw()); }
    @after `let mut pred`
        proof { lemma_tree_empty(dg, s, pred.pred@); }
    @loop 1
    invariant
        self.digraph == dg, dg == old(self).digraph, s == old(self).srcs(),
        self.inv(s),
        trace_inv(dg, self.dist@, self.items(), s, em),
        tree_inv(dg, s, em, pred.pred@),
    ensures
        self.items().len() == 0,
    decreases
        dsum(self.dist@), self.items().len(),
    @before_call 1
        let ghost d0 = self.dist@;
        let ghost h0 = self.items();
        let ghost pr0 = pred.pred@;
        let ghost em0 = em;
    @loop_start 1
        proof {
            lemma_dsum_nonneg(self.dist@);
            em = em.push((v, self.dist@[v as int]));
            lemma_tree_step(dg, s, d0, h0, self.dist@, self.items(), em0, pr0, u, v, self.dist@[v as int]);
        }
    @fn_end
        proof {
            lemma_pred_final(dg, self.dist@, self.items(), s, em, pred.pred@);
        }
    @*/

    // loop_isolation(false): inside an isolated loop Verus cannot relate a mutated closure parameter (`|mut path|`)
    // to its initial value in the closure's `ensures`; every loop invariant is still checked as usual
    // (no loop `ensures` in this mode: what holds at the `break` is known after the loop)
    #[verifier::loop_isolation(false)]
    /*@fn impl=DijkstraPred name=shortest_path subst=D=>Dgw dropwhere=D
    requires
        old(self).is_fresh(),
        paths_fit(old(self).digraph, old(self).srcs()),
        tgt_callable(is_target),
        tgt_det(is_target),
    ensures
        r is None <==> !exists|t: int| 0 <= t < old(self).digraph.ord() && reachable(has_of(old(self).digraph), old(self).srcs(), t) && tgt(is_target, t),
        r matches Some(path) ==> sp_ok(old(self).digraph, old(self).srcs(), is_target, path@),
    @fn_start
        let ghost s = self.srcs();
        let ghost dg = self.digraph;
        let ghost mut em: Seq<(usize, usize)> = Seq::empty();
        proof { lemma_djp_fresh_inv(dg, self.dist@, self.raw()); }
    @after `let mut pred`
        proof { lemma_tree_empty(dg, s, pred.pred@); }
    @loop 1
    invariant
        self.digraph == dg, dg == old(self).digraph, s == old(self).srcs(),
        tgt_callable(is_target), tgt_det(is_target),
        self.inv(s),
        trace_inv(dg, self.dist@, self.items(), s, em),
        tree_inv(dg, s, em, pred.pred@),
        forall|i: int| 0 <= i < em.len() ==> !tgt(is_target, (#[trigger] em[i]).0 as int),
    decreases
        dsum(self.dist@), self.items().len(),
    @before_call 1
        let ghost d0 = self.dist@;
        let ghost h0 = self.items();
        let ghost pr0 = pred.pred@;
        let ghost em0 = em;
    @loop_start 1
        proof {
            lemma_dsum_nonneg(self.dist@);
            em = em.push((v, self.dist@[v as int]));
            lemma_tree_step(dg, s, d0, h0, self.dist@, self.items(), em0, pr0, u, v, self.dist@[v as int]);
        }
    @before `return pred.search_by`
        proof {
            reveal(found);
            let pr = pred.pred@;
            let n = em.len() - 1;
            let k = em[n].1;
            assert(em[n] == (v, k));
            // the predecessor chain from v ends
            lemma_chain_root(dg, s, em, pr, n);
            let n0 = choose|m: nat| root_at(pr, v, m);
            assert(root_at(pr, v, n0));
            // v is a reachable target at distance k
            assert(em_ok(dg, self.dist@, self.items(), s, em[n]));
            lemma_witness_reachable(has_of(dg), wt_of(dg), s, v as int, k as int);
            assert(tgt(is_target, v as int));
            // no target is closer
            assert forall|t2: int| 0 <= t2 < dg.ord() && #[trigger] tgt(is_target, t2) implies is_lower_bound(has_of(dg), wt_of(dg), s, t2, k as int) by {
                if emitted(em, t2) {
                    let i = choose|i: int| 0 <= i < em.len() && (#[trigger] em[i]).0 == t2;
                    if i < n {
                        assert(em[i] == em0[i]);
                        assert(!tgt(is_target, em0[i].0 as int));
                    }
                } else {
                    lemma_lb_unemitted(dg, self.dist@, self.items(), s, em, k as int, t2);
                }
            }
            // whatever chain search_by follows down to a vertex without predecessor: reversed it is the promised walk
            assert forall|p: Seq<usize>| #[trigger] link_path(pr, v, p) && pr[p.last() as int] is None implies sp_ok(dg, s, is_target, p.reverse()) by {
                lemma_link_walk(dg, s, em, pr, p, n);
                assert(ints(p.reverse()).last() == v as int);
            }
        }
    @closure 1 |a: &usize, b: &Option<usize>| -> (c: bool)
    ensures c == b.is_none()
    @closure 2 |mut path: Vec<usize>| -> (q: Vec<usize>)
    ensures q@ == path@.reverse()
    @loop_end 1
        proof {
            assert(tgt_says(is_target, v, false));
            assert(!tgt(is_target, v as int));
            assert forall|i: int| 0 <= i < em.len() implies !tgt(is_target, (#[trigger] em[i]).0 as int) by {
                if i < em.len() - 1 { assert(em[i] == em0[i]); }
            }
        }
    @fn_end
        proof {
            lemma_trace_final(dg, self.dist@, self.items(), s, em);
            assert forall|t: int| 0 <= t < dg.ord() && reachable(has_of(dg), s, t) implies !tgt(is_target, t) by {
                assert(emitted(em, t));
                let i = choose|i: int| 0 <= i < em.len() && (#[trigger] em[i]).0 == t;
                assert(!tgt(is_target, em[i].0 as int));
            }
        }
    @*/
}

} // verus!
fn main() {}
