//@unit props=C08,C13 tier=quick rlimit=30
//@file src/algo/floyd_warshall.rs
// C08 for FloydWarshall::{new, distances} (src/algo/floyd_warshall.rs), C13 for every index `x * order + y` they touch.
//
// The algorithm is verified against the trait contracts of an opaque arc-weighted digraph (prelude/dgw_isize.rs).
// `distances` requires the state built by `new` (`inv` + `is_fresh`), the arithmetic side condition `sums_fit`
// (every duplicate-free walk weighs within +-isize::MAX/2) and C08's hypothesis `no_neg_circuit`.
// Proof: phase (a)+(b) establish `init_ok`; the triple loop maintains `fw_inv(dg, d, m, jj, kk)` (speclib/fw_lemmas.rs):
// every cell holds the minimum weight of a walk whose interior vertices are below its stage (m + 1 for the cells
// before (jj, kk), m for the others).  At m == order that is C08's statement.
//
// `DistanceMatrix::new` is not assumed: its extracted body is imported (units/inc/dm_new.inc.rs, owned by units/dm_new.rs)
// and verified here against the contract `FloydWarshall::new` relies on; assumed below it: prelude/dm_new_std.rs.
//
// Rule M: Verus has no `continue` in for-loops.  `if c { continue; } rest` is rewritten to `if !c { rest }` by five
// @manual text replacements (the skipped text is put in a block comment, two closing braces are added after the
// innermost statement, which is followed by closing braces only).
#![feature(allocator_api)]
use vstd::prelude::*;
use vstd::std_specs::iter::IteratorSpec;
use vstd::slice::SliceIndexSpec;
verus! {
global size_of usize == 8;
//@include prelude/std_contracts.rs
//@include prelude/dgw_isize.rs
//@include speclib/graph.rs
//@import units/inc/distance_matrix.inc.rs
//@include prelude/dm_new_std.rs
//@import units/inc/dm_new.inc.rs
//@include prelude/fw_std.rs
//@include speclib/fw_lemmas.rs

// ---- phase (a): the arc weights ----
/// the arcs_weighted contract over the whole item sequence
spec fn arcs_ok<'b>(dg: &Dgi, s: Seq<(usize, usize, &'b isize)>) -> bool {
    forall|i: int| 0 <= i < s.len() ==> dg.has((#[trigger] s[i]).0 as int, s[i].1 as int) && *s[i].2 == dg.wt(s[i].0 as int, s[i].1 as int)
}
/// the arc (u, v) is among the items still to come
spec fn pending<'b>(s: Seq<(usize, usize, &'b isize)>, idx: int, u: int, v: int) -> bool {
    exists|i: int| idx <= i < s.len() && (#[trigger] s[i]).0 == u && s[i].1 == v
}
/// during phase (a): every cell holds MAX or the weight of its arc
spec fn cells_a(dg: &Dgi, d: Seq<isize>) -> bool {
    &&& d.len() == dg.ord() * dg.ord()
    &&& forall|u: int, v: int| 0 <= u < dg.ord() && 0 <= v < dg.ord() ==>
            (#[trigger] ent(d, dg.ord() as int, u, v) == isize::MAX || (dg.has(u, v) && ent(d, dg.ord() as int, u, v) == dg.wt(u, v)))
}
/// after the first idx arcs: the cell of every arc holds its weight unless the arc is still to come
spec fn arcs_a<'b>(dg: &Dgi, d: Seq<isize>, s: Seq<(usize, usize, &'b isize)>, idx: int) -> bool {
    forall|u: int, v: int| #[trigger] dg.has(u, v) ==> ent(d, dg.ord() as int, u, v) == dg.wt(u, v) || pending(s, idx, u, v)
}
proof fn lemma_fresh_cells(dg: &Dgi, d: Seq<isize>)
    requires dg.wf(), d.len() == dg.ord() * dg.ord(), forall|i: int| 0 <= i < d.len() ==> d[i] == isize::MAX,
    ensures cells_a(dg, d),
{
    let n = dg.ord() as int;
    assert forall|u: int, v: int| 0 <= u < n && 0 <= v < n implies #[trigger] ent(d, n, u, v) == isize::MAX by {
        lemma_cell_bound(u, v, n);
    }
}
proof fn lemma_phase_a_step<'b>(dg: &Dgi, d: Seq<isize>, s: Seq<(usize, usize, &'b isize)>, idx: int)
    requires dg.wf(), arcs_ok(dg, s), cells_a(dg, d), arcs_a(dg, d, s, idx), 0 <= idx < s.len(),
    ensures
        0 <= s[idx].0 * dg.ord() + s[idx].1 < d.len(),
        s[idx].0 * dg.ord() <= s[idx].0 * dg.ord() + s[idx].1,
        cells_a(dg, d.update(s[idx].0 * dg.ord() + s[idx].1, *s[idx].2)),
        arcs_a(dg, d.update(s[idx].0 * dg.ord() + s[idx].1, *s[idx].2), s, idx + 1),
{
    let n = dg.ord() as int;
    let u = s[idx].0 as int; let v = s[idx].1 as int;
    assert(dg.has(u, v));
    lemma_cell_bound(u, v, n);
    let d2 = d.update(u * n + v, *s[idx].2);
    assert forall|u2: int, v2: int| 0 <= u2 < n && 0 <= v2 < n implies
        (#[trigger] ent(d2, n, u2, v2) == isize::MAX || (dg.has(u2, v2) && ent(d2, n, u2, v2) == dg.wt(u2, v2))) by {
        lemma_cell_bound(u2, v2, n);
        if u2 * n + v2 == u * n + v { lemma_cell_inj(u2, v2, u, v, n); }
        else { assert(ent(d2, n, u2, v2) == ent(d, n, u2, v2)); }
    }
    assert forall|u2: int, v2: int| #[trigger] dg.has(u2, v2) implies ent(d2, n, u2, v2) == dg.wt(u2, v2) || pending(s, idx + 1, u2, v2) by {
        lemma_cell_bound(u2, v2, n);
        if u2 * n + v2 == u * n + v {
            lemma_cell_inj(u2, v2, u, v, n);
        } else {
            assert(ent(d2, n, u2, v2) == ent(d, n, u2, v2));
            if pending(s, idx, u2, v2) {
                let i = choose|i: int| idx <= i < s.len() && (#[trigger] s[i]).0 == u2 && s[i].1 == v2;
                assert(i != idx);
            }
        }
    }
}
/// all arcs written
spec fn after_a(dg: &Dgi, d: Seq<isize>) -> bool {
    forall|u: int, v: int| #[trigger] dg.has(u, v) ==> ent(d, dg.ord() as int, u, v) == dg.wt(u, v)
}
proof fn lemma_phase_a_done(dg: &Dgi, d: Seq<isize>)
    requires dg.wf(), cells_a(dg, d), after_a(dg, d),
    ensures phase_b(dg, d, 0),
{
    let n = dg.ord() as int;
    assert forall|u: int, v: int| 0 <= u < n && 0 <= v < n implies
        #[trigger] ent(d, n, u, v) == (if dg.has(u, v) { dg.wt(u, v) } else { isize::MAX as int }) by {
    }
}
/// phase (b): after the arcs, the diagonal cells below i have been set to 0
spec fn phase_b(dg: &Dgi, d: Seq<isize>, i: int) -> bool {
    &&& d.len() == dg.ord() * dg.ord()
    &&& forall|u: int, v: int| 0 <= u < dg.ord() && 0 <= v < dg.ord() ==>
            #[trigger] ent(d, dg.ord() as int, u, v) == (if u == v && u < i { 0 } else if dg.has(u, v) { dg.wt(u, v) } else { isize::MAX as int })
}
proof fn lemma_phase_b_step(dg: &Dgi, d: Seq<isize>, i: int)
    requires dg.wf(), phase_b(dg, d, i), 0 <= i < dg.ord(),
    ensures
        0 <= i * dg.ord() + i < d.len(), i * dg.ord() <= i * dg.ord() + i,
        phase_b(dg, d.update(i * dg.ord() + i, 0), i + 1),
{
    let n = dg.ord() as int;
    lemma_cell_bound(i, i, n);
    let d2 = d.update(i * n + i, 0isize);
    assert forall|u: int, v: int| 0 <= u < n && 0 <= v < n implies
        #[trigger] ent(d2, n, u, v) == (if u == v && u < i + 1 { 0 } else if dg.has(u, v) { dg.wt(u, v) } else { isize::MAX as int }) by {
        lemma_cell_bound(u, v, n);
        if u * n + v == i * n + i { lemma_cell_inj(u, v, i, i, n); }
        else { assert(ent(d2, n, u, v) == ent(d, n, u, v)); }
    }
}
proof fn lemma_phase_b_done(dg: &Dgi, d: Seq<isize>)
    requires dg.wf(), phase_b(dg, d, dg.ord() as int),
    ensures init_ok(dg, d),
{
    let n = dg.ord() as int;
    assert forall|u: int, v: int| 0 <= u < n && 0 <= v < n implies #[trigger] ent(d, n, u, v) == init_val(dg, u, v) by {
        if u == v { assert(!dg.has(u, v)); }
    }
}
/// the Vertices::vertices contract over the whole item sequence
spec fn verts_ok(dg: &Dgi, s: Seq<usize>) -> bool {
    s.len() == dg.ord() && forall|t: int| 0 <= t < s.len() ==> #[trigger] s[t] == t
}

/*@struct name=FloydWarshall subst=D=>Dgi drop=D @*/

impl<'a> FloydWarshall<'a> {
    /// struct invariant established by `new`: the matrix is order x order
    spec fn inv(&self) -> bool {
        self.digraph.wf() && self.dist.wf() && self.dist.order == self.digraph.ord()
    }
    /// state as built by `new`: every entry is MAX
    spec fn is_fresh(&self) -> bool {
        self.dist.infinity == isize::MAX && forall|i: int| 0 <= i < self.dist.dist@.len() ==> self.dist.dist@[i] == isize::MAX
    }

    /*@fn impl=FloydWarshall name=new subst=D=>Dgi drop=D dropwhere=D
    requires
        digraph.wf(),
    ensures
        r.digraph == digraph,
        r.inv(),
        r.is_fresh(),
    @*/

    /*@fn impl=FloydWarshall name=distances subst=D=>Dgi dropwhere=D
    requires
        old(self).inv(),
        old(self).is_fresh(),
        sums_fit(old(self).digraph),
        no_neg_circuit(old(self).digraph),
    ensures
        final(self).digraph == old(self).digraph,
        final(self).inv(),
        *r == final(self).dist,
        r.wf(),
        r.order == old(self).digraph.ord(),
        r.infinity == isize::MAX,
        forall|u: int, v: int| 0 <= u < r.order && 0 <= v < r.order ==>
            (#[trigger] r.at(u, v) == isize::MAX <==> !reachable(has_of(old(self).digraph), set![u], v)),
        forall|u: int, v: int| 0 <= u < r.order && 0 <= v < r.order && #[trigger] r.at(u, v) != isize::MAX ==>
            is_min_walk_weight(has_of(old(self).digraph), wt_of(old(self).digraph), set![u], v, r.at(u, v) as int),
        forall|u: int| 0 <= u < r.order ==> #[trigger] r.at(u, u) == 0,
    @manual `a == isize::MAX {` => `a != isize::MAX { /*` :: Verus: no `continue` in for-loops; `if a == MAX { continue; } rest` becomes `if a != MAX { rest }`
    @manual `for k` => `*/ for k` :: end of the commented-out `continue; }` of the guard on a
    @manual `b == isize::MAX {` => `b != isize::MAX { /*` :: Verus: no `continue` in for-loops; `if b == MAX { continue; } rest` becomes `if b != MAX { rest }`
    @manual `let s` => `*/ let s` :: end of the commented-out `continue; }` of the guard on b
    @manual `= s;` => `= s; } }` :: closing braces of the two guards (only closing braces follow this statement)
    @fn_start
        let ghost dg = self.digraph;
        let ghost n = dg.ord() as int;
    @loop 1
    invariant
        it1.iter.obeys_prophetic_iter_laws(),
        it1.iter.decrease() is Some,
        self.digraph == dg, dg.wf(), n == dg.ord(), order == n,
        self.dist.order == n, self.dist.infinity == isize::MAX, self.dist.wf(),
        arcs_ok(dg, it1.seq()),
        cells_a(dg, self.dist.dist@),
        forall|u: int, v: int| #[trigger] dg.has(u, v) ==> ent(self.dist.dist@, n, u, v) == dg.wt(u, v) || pending(it1.seq(), it1.index@, u, v),
    @loop_start 1
        proof {
            assert((u, v, w__r) == it1.seq()[it1.index@]);
            lemma_phase_a_step(dg, self.dist.dist@, it1.seq(), it1.index@);
        }
    @before `for (u, v`
        proof { lemma_fresh_cells(dg, self.dist.dist@); }
    @before `for i in 0`
        proof {
            assert(after_a(dg, self.dist.dist@));
            lemma_phase_a_done(dg, self.dist.dist@);
        }
    @loop 2
    invariant
        self.digraph == dg, dg.wf(), n == dg.ord(), order == n,
        self.dist.order == n, self.dist.infinity == isize::MAX, self.dist.wf(),
        phase_b(dg, self.dist.dist@, i as int),
    @loop_start 2
        proof { lemma_phase_b_step(dg, self.dist.dist@, i as int); }
    @before `for i in self`
        proof {
            lemma_phase_b_done(dg, self.dist.dist@);
            lemma_fw_init(dg, self.dist.dist@);
        }
    @loop 3
    invariant
        it3.iter.obeys_prophetic_iter_laws(),
        it3.iter.decrease() is Some,
        verts_ok(dg, it3.seq()),
        self.digraph == dg, dg.wf(), n == dg.ord(), order == n,
        sums_fit(dg), no_neg_circuit(dg),
        self.dist.order == n, self.dist.infinity == isize::MAX, self.dist.wf(),
        fw_inv(dg, self.dist.dist@, it3.index@, 0, 0),
    @loop_start 3
        let ghost m = it3.index@;
        proof { assert(i == it3.seq()[m]); }
    @loop_end 3
        proof { lemma_stage_end(dg, self.dist.dist@, m); }
    @loop 4
    invariant
        it4.iter.obeys_prophetic_iter_laws(),
        it4.iter.decrease() is Some,
        verts_ok(dg, it4.seq()),
        self.digraph == dg, dg.wf(), n == dg.ord(), order == n,
        sums_fit(dg), no_neg_circuit(dg),
        self.dist.order == n, self.dist.infinity == isize::MAX, self.dist.wf(),
        0 <= m < n, i == m,
        fw_inv(dg, self.dist.dist@, m, it4.index@, 0),
    @loop_start 4
        let ghost jj = it4.index@;
        proof {
            assert(j == it4.seq()[jj]);
            lemma_cell_bound(jj, m, n);
        }
    @before `if a ==`
        proof {
            lemma_read(dg, self.dist.dist@, m, jj, 0, jj, m);
            if a == isize::MAX {
                lemma_skip_row(dg, self.dist.dist@, m, jj);
            } else {
                lemma_lift_col_all(dg, jj, m, a as int);
                if jj != m { lemma_bound_col(dg, jj, m, a as int); }
            }
        }
    @loop 5
    invariant
        it5.iter.obeys_prophetic_iter_laws(),
        it5.iter.decrease() is Some,
        verts_ok(dg, it5.seq()),
        self.digraph == dg, dg.wf(), n == dg.ord(), order == n,
        sums_fit(dg), no_neg_circuit(dg),
        self.dist.order == n, self.dist.infinity == isize::MAX, self.dist.wf(),
        0 <= m < n, i == m, 0 <= jj < n, j == jj,
        a != isize::MAX, -fw_half() <= a <= fw_half(),
        witv(dg, jj, m, a as int, m + 1), lbv(dg, jj, m, a as int, m + 1),
        fw_inv(dg, self.dist.dist@, m, jj, it5.index@),
    @loop_start 5
        let ghost kk = it5.index@;
        let ghost d0 = self.dist.dist@;
        proof {
            assert(k == it5.seq()[kk]);
            lemma_cell_bound(m, kk, n);
            lemma_cell_bound(jj, kk, n);
        }
    @before `if b ==`
        proof {
            lemma_read(dg, d0, m, jj, kk, m, kk);
            lemma_lift_row_all(dg, m, kk, b as int);
            assert(cell_ok(dg, d0, m, jj, kk, jj, kk));
            if b != isize::MAX && m != kk { lemma_bound_row(dg, m, kk, b as int); }
            lemma_cell_step(dg, jj, kk, m, a as int, b as int, ent(d0, n, jj, kk));
            if b == isize::MAX { lemma_keep(dg, d0, m, jj, kk); }
        }
    @before `if s`
        proof {
            if s <= d0[jj * n + kk] { lemma_write(dg, d0, m, jj, kk, s); }
            if s >= d0[jj * n + kk] { lemma_keep(dg, d0, m, jj, kk); }
        }
    @loop_end 4
        proof { if a != isize::MAX { lemma_row_end(dg, self.dist.dist@, m, jj); } }
    @fn_end
        proof {
            assert forall|u: int, v: int| 0 <= u < n && 0 <= v < n implies
                (#[trigger] self.dist.at(u, v) == isize::MAX <==> !reachable(has_of(dg), set![u], v))
                && (self.dist.at(u, v) != isize::MAX ==> is_min_walk_weight(has_of(dg), wt_of(dg), set![u], v, self.dist.at(u, v) as int))
                && (u == v ==> self.dist.at(u, v) == 0) by {
                lemma_fw_final(dg, self.dist.dist@, u, v);
            }
        }
    @*/
}

/// Composition check (client code, not crate code): `FloydWarshall::new(&digraph).distances()[(u, v)]` is what C08
/// says, with `new`'s postcondition as the only source of `inv` / `is_fresh`.
fn harness_apsp(dg: &Dgi, u: usize, v: usize) -> (x: isize)
    requires
        dg.wf(), sums_fit(dg), no_neg_circuit(dg), u < dg.ord(), v < dg.ord(),
    ensures
        x == isize::MAX <==> !reachable(has_of(dg), set![u as int], v as int),
        x != isize::MAX ==> is_min_walk_weight(has_of(dg), wt_of(dg), set![u as int], v as int, x as int),
        u == v ==> x == 0,
{
    let mut fw = FloydWarshall::new(dg);
    let r = fw.distances();
    proof { lemma_cell_bound(u as int, v as int, r.order as int); }   // the cell number u * order + v is computable
    *r.index_pair((u, v))
}

} // verus!
fn main() {}
