//@unit props=C08,C13 tier=quick rlimit=30
//@file src/algo/floyd_warshall.rs
#![feature(allocator_api)]
use vstd::prelude::*;
use vstd::std_specs::iter::IteratorSpec;
use vstd::slice::SliceIndexSpec;
verus! {
global size_of usize == 8;
//@include prelude/std_contracts.rs
//@include prelude/dgw_isize.rs
//@include speclib/graph.rs
//@import units/inc/distance_matrix.inc.rs
//@include prelude/fw_std.rs

/*@struct name=FloydWarshall subst=D=>Dgi drop=D @*/

impl<'a> FloydWarshall<'a> {
    spec fn inv(&self) -> bool {
        self.digraph.wf() && self.dist.wf() && self.dist.order == self.digraph.ord()
    }

    /*@fn impl=FloydWarshall name=new subst=D=>Dgi drop=D dropwhere=D
    requires
        digraph.wf(),
    ensures
        r.digraph == digraph,
        r.inv(),
    @*/

    /*@fn impl=FloydWarshall name=distances subst=D=>Dgi dropwhere=D
    requires
        old(self).inv(),
    ensures
        true,
    @*/
}

} // verus!
fn main() {}
