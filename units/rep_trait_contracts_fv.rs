//@unit props=C10,C09,C02 tier=quick rlimit=30
//@file src/repr/adjacency_map/mod.rs
#![feature(allocator_api)]
use vstd::prelude::*;
use vstd::set_lib::*;
use vstd::slice::SliceIndexSpec;
use vstd::std_specs::iter::IteratorSpec;
use std::collections::BTreeMap;
use std::collections::BTreeSet;
use std::collections::btree_map;
use std::collections::btree_set;
use std::collections::btree_map::Entry;
use std::alloc::Allocator;
verus! {
global size_of usize == 8;
// std contracts needed by the imported fragments (as in units/map_ctor.rs, plus matrix_std for matrix_core / matrix_iter)
//@include prelude/std_contracts.rs
//@include prelude/matrix_std.rs
//@include prelude/list_core_std.rs
//@include prelude/weighted_map_std.rs
//@include prelude/list_ops_std.rs
//@include prelude/iter_wrappers.rs
//@include prelude/blanket_std.rs
//@include prelude/c13left_std.rs
//@include prelude/wm_more_std.rs
// (prelude/map_ctor_std.rs is included inside module map_fv_side: it has an `impl AdjacencyMap` block)
// the opaque digraph types whose trait contracts are compared against
//@include prelude/dg.rs
//@include prelude/dg_ops.rs
//@include prelude/dg_any.rs
//@include prelude/dg_johnson.rs

//@include units/inc/rep_trait_contracts_tc.inc.rs
//@include units/inc/rep_trait_contracts_fv.inc.rs
} // verus!
fn main() {}
