//@unit props=C04,C03,C06,C05,C07,C08,C02 tier=quick rlimit=30
//@file src/repr/adjacency_matrix/mod.rs
#![feature(allocator_api)]
use vstd::prelude::*;
use vstd::set_lib::*;
use vstd::slice::SliceIndexSpec;
use vstd::std_specs::iter::IteratorSpec;
use std::collections::BTreeMap;
use std::collections::BTreeSet;
use std::collections::btree_map;
use std::collections::btree_set;
use std::collections::btree_map::Entry;
use std::alloc::Allocator;
verus! {
global size_of usize == 8;
// std contracts needed by the imported representation fragments
//@include prelude/std_contracts.rs
//@include prelude/matrix_std.rs
//@include prelude/iter_wrappers.rs
//@include prelude/blanket_std.rs
//@include prelude/list_core_std.rs
//@include prelude/list_ops_std.rs
//@include prelude/weighted_map_std.rs
// the four opaque digraph types whose methods carry the TRAIT CONTRACTS (the texts this unit compares against)
//@include prelude/dg.rs
//@include prelude/dg_ops.rs
//@include prelude/dgw_usize.rs
//@include prelude/dgw_isize.rs

//@include units/inc/rep_trait_contracts.inc.rs
} // verus!
fn main() {}
