//@unit props=C03,C05,C01,C13 tier=quick rlimit=30
//@file src/repr/adjacency_list_weighted/mod.rs
use vstd::prelude::*;
use vstd::slice::SliceIndexSpec;
use vstd::std_specs::iter::IteratorSpec;
use std::collections::BTreeMap;
use std::collections::btree_map;
verus! {
global size_of usize == 8;
//@include prelude/std_contracts.rs
//@include prelude/list_core_std.rs

// the opaque digraph types (`lex_lt`, `vertex_seq` used by the tc_* predicates) and the trait-contract clauses tc_*
//@include prelude/dg.rs
//@include prelude/dg_ops.rs
//@include units/inc/rep_trait_contracts_tc.inc.rs

//@include units/inc/weighted_onw_usize.inc.rs
} // verus!
fn main() {}
