//@unit props=C02,C12,C13 tier=quick rlimit=30
//@file src/op/degree.rs
use vstd::prelude::*;
use vstd::set_lib::*;
use vstd::slice::SliceIndexSpec;
use vstd::std_specs::iter::IteratorSpec;
use std::collections::BTreeSet;
verus! {
global size_of usize == 8;
//@include prelude/std_contracts.rs
//@include prelude/dg_ops.rs
//@include prelude/blanket_std.rs

//@include units/inc/ops_blanket.inc.rs
} // verus!
fn main() {}
