//@unit props=C06,C13 tier=quick rlimit=30
//@file src/algo/dfs.rs
use vstd::prelude::*;
use vstd::std_specs::iter::IteratorSpec;
verus! {
global size_of usize == 8;
//@include prelude/std_contracts.rs
//@include prelude/dg.rs
//@include speclib/graph.rs

/*@struct name=Dfs subst=D=>Dg drop=D @*/
/*@type name=Step rename=StepDist file=src/algo/dfs_dist.rs @*/
/*@struct name=DfsDist subst=D=>Dg;Step=>StepDist drop=D file=src/algo/dfs_dist.rs @*/
/*@type name=Step rename=StepPred file=src/algo/dfs_pred.rs @*/
/*@struct name=DfsPred subst=D=>Dg;Step=>StepPred drop=D file=src/algo/dfs_pred.rs @*/
/*@struct name=PredecessorTree file=src/algo/predecessor_tree.rs @*/

impl<'a> Dfs<'a> {
    spec fn inv(&self) -> bool {
        &&& self.digraph.wf()
        &&& self.visited.len() == self.digraph.ord()
        &&& forall|i: int| 0 <= i < self.stack@.len() ==> #[trigger] self.stack@[i] < self.visited.len()
    }

    /*@fn impl=Dfs name=new subst=D=>Dg drop=D dropwhere=D
    requires
        digraph.wf(),
        sources.obeys_prophetic_iter_laws(),
        sources.decrease() is Some,
    ensures
        r.inv(),
    @loop 1
    invariant
        true,
    @*/

    /*@fn impl=Dfs trait=Iterator name=next subst=Self::Item=>usize
    requires
        old(self).inv(),
    ensures
        final(self).inv(),
    @loop 1
    invariant
        true,
    @*/
}

} // verus!
fn main() {}
