//@unit props=C06,C13 tier=quick rlimit=30
//@file src/algo/dfs.rs
// C06 for Dfs / DfsDist / DfsPred (stack-based depth-first search), verified against the opaque digraph `Dg` (prelude/dg.rs).
//
// How the property is stated (modularly, per call of `next`; `s` = source set, not stored in the structs, hence universally
// quantified: `forall|s| old.inv(s) ==> ...`; `new` establishes inv for s = set of the given sources):
//   * at most once / no other vertex: Some(v) ==> v was unvisited and is the only vertex newly marked visited; v is reachable;
//   * stack discipline: Some(v) ==> v was the topmost unvisited entry, replaced by exactly its unvisited out-neighbours (X_yield_at);
//   * preorder: Some(v) ==> v is a new root (source, no visited vertex has an unvisited out-neighbour) or an out-neighbour of the
//     deepest vertex on the current search path that still has an unvisited out-neighbour (search_step / deepest_step, with the
//     search path `path` threaded as ghost parameter of inv_p); DfsPred reports that vertex (pred_step, deepest_step), DfsDist
//     reports the depth = |search path| - 1 (and dist_step w.r.t. the depths `dep` reported so far);
//   * every reachable vertex: KNOWN DEFECT F2 - `next` returns None when it pops an already visited vertex although unvisited
//     vertices may remain on the stack (arcs 0->1, 0->2, 0->3, 3->2, source 0: yields 0, 3, 2, never 1). The clause
//     `r is None ==> no unvisited vertex remains on the stack` is the only clause expected to FAIL (once per struct);
//     lemma_exhausted (per struct) turns its conclusion into visited == reachable, and DfsPred::predecessors - verified
//     against the contract of `next` - concludes visited == reachable and that its result is the search forest (pred_forest).
// After the repair of F2 (`loop { ..; continue; ..; return Some(x); }`) the function contracts stay as they are; only the
// annotations move: add `@loop 1` (outer loop) with invariant { self.wf(), digraph/visited unchanged, self.stack@ is a prefix of
// old(self).stack@ whose dropped entries are visited, forall|s| old.inv(s) ==> self.inv(s), same for inv_p } decreases
// self.stack@.len(), `@loop_start 1: let ghost pre = *self;`, renumber the for loop to 2 and state its invariants and the hints
// w.r.t. `pre` instead of old(self) (plus pre-vs-old facts), `@before return None` -> `@before continue`, `@fn_end` ->
// `@before return Some(`. (Checked on a scratch copy: all obligations pass, the three failures disappear.)
use vstd::prelude::*;
use vstd::std_specs::iter::IteratorSpec;
use vstd::slice::SliceIndexSpec;
verus! {
global size_of usize == 8;
//@include prelude/std_contracts.rs
//@include prelude/dg.rs
//@include speclib/graph.rs
//@include speclib/dfs_lemmas.rs

/*@struct name=Dfs subst=D=>Dg drop=D @*/
// `type Step` exists in both dfs_dist.rs and dfs_pred.rs (the extractor cannot rename type aliases):
// the alias of dfs_dist.rs is extracted, the one of dfs_pred.rs is substituted by its definition.
/*@type name=Step file=src/algo/dfs_dist.rs @*/
/*@struct name=DfsDist subst=D=>Dg drop=D file=src/algo/dfs_dist.rs @*/
/*@struct name=DfsPred subst=D=>Dg;Step=>(Option<usize>,usize) drop=D file=src/algo/dfs_pred.rs @*/
/*@struct name=PredecessorTree file=src/algo/predecessor_tree.rs @*/

/// arc relation of the digraph as a spec closure (for speclib/graph.rs)
spec fn arcs_of(dg: &Dg) -> ArcRel { |u: int, v: int| dg.has(u, v) }

/// the set of source vertices given to `new`
spec fn src_set(srcs: Seq<usize>) -> Set<int> { srcs.map_values(|x: usize| x as int).to_set() }

spec fn is_src(srcs: Seq<usize>, x: int) -> bool { exists|i: int| 0 <= i < srcs.len() && #[trigger] srcs[i] as int == x }

proof fn lemma_src_set(srcs: Seq<usize>)
    ensures forall|x: int| #[trigger] src_set(srcs).contains(x) <==> is_src(srcs, x),
{
    let m = srcs.map_values(|x: usize| x as int);
    assert forall|x: int| #[trigger] src_set(srcs).contains(x) implies is_src(srcs, x) by {
        assert(m.contains(x));
        let i = choose|i: int| 0 <= i < m.len() && m[i] == x;
        assert(srcs[i] as int == x);
    }
    assert forall|x: int| is_src(srcs, x) implies #[trigger] src_set(srcs).contains(x) by {
        let i = choose|i: int| 0 <= i < srcs.len() && #[trigger] srcs[i] as int == x;
        assert(m[i] == x);
    }
}

// =====================================================================================================================
// Dfs
// =====================================================================================================================
// the invariants as functions of the parts of the state (so that an unchanged state trivially keeps them)
spec fn dfs_sv(st: Seq<usize>) -> Seq<int> { Seq::new(st.len(), |i: int| st[i] as int) }

spec fn dfs_wf(dg: &Dg, st: Seq<usize>, vis: Seq<bool>) -> bool {
    &&& dg.wf()
    &&& vis.len() == dg.ord()
    &&& forall|i: int| 0 <= i < st.len() ==> #[trigger] st[i] < dg.ord()
}

spec fn dfs_inv_k(dg: &Dg, st: Seq<usize>, vis: Seq<bool>, s: Set<int>, k: int) -> bool {
    dfs_wf(dg, st, vis) && dfs_core(arcs_of(dg), dg.ord() as int, s, k, vis, dfs_sv(st))
}

spec fn dfs_inv(dg: &Dg, st: Seq<usize>, vis: Seq<bool>, s: Set<int>) -> bool {
    exists|k: int| dfs_inv_k(dg, st, vis, s, k)
}

/// a `Some(v)` step from (st0, vis0) to (st1, vis1): v = st0[m] is the topmost unvisited entry (the entries above it are
/// visited and discarded); it is replaced by exactly the unvisited out-neighbours of v
spec fn dfs_yield_at(dg: &Dg, st0: Seq<usize>, vis0: Seq<bool>, st1: Seq<usize>, vis1: Seq<bool>, v: usize, m: int) -> bool {
    &&& 0 <= m < st0.len() && st0[m] == v
    &&& forall|i: int| m < i < st0.len() ==> vis0[#[trigger] st0[i] as int]
    &&& st1.len() >= m
    &&& forall|i: int| 0 <= i < m ==> #[trigger] st1[i] == st0[i]
    &&& forall|j: int| m <= j < st1.len() ==> dg.has(v as int, #[trigger] st1[j] as int) && !vis1[st1[j] as int]
    &&& forall|x: int| #[trigger] dg.has(v as int, x) && !vis1[x] ==> on_stack_from(dfs_sv(st1), m, x)
}

/// search invariant including the current search path `path`; `sp` are the (ghost) predecessors of the stack entries
spec fn dfs_inv_pk(dg: &Dg, st: Seq<usize>, vis: Seq<bool>, s: Set<int>, k: int, sp: Seq<Option<int>>, path: Seq<int>) -> bool {
    &&& dfs_inv_k(dg, st, vis, s, k)
    &&& path_inv(arcs_of(dg), dg.ord() as int, k, vis, dfs_sv(st), sp, path)
}

spec fn dfs_inv_p(dg: &Dg, st: Seq<usize>, vis: Seq<bool>, s: Set<int>, path: Seq<int>) -> bool {
    exists|k: int, sp: Seq<Option<int>>| dfs_inv_pk(dg, st, vis, s, k, sp, path)
}

/// discarding a visited top entry keeps the search-path invariant
proof fn lemma_dfs_discard_path(dg: &Dg, st0: Seq<usize>, vis: Seq<bool>, st1: Seq<usize>, s: Set<int>, path: Seq<int>)
    requires
        dfs_inv_p(dg, st0, vis, s, path),
        st0.len() > 0,
        vis[st0.last() as int],
        st1 == st0.drop_last(),
    ensures
        dfs_inv_p(dg, st1, vis, s, path),
{
    let (k, sp) = choose|k: int, sp: Seq<Option<int>>| dfs_inv_pk(dg, st0, vis, s, k, sp, path);
    let has = arcs_of(dg);
    let ord = dg.ord() as int;
    let k2 = roots_after_pop(k, st0.len() as int);
    assert(dfs_sv(st1) =~= dfs_sv(st0).drop_last());
    assert(dfs_sv(st0).last() == st0.last() as int);
    lemma_core_pop_visited(has, ord, s, k, vis, dfs_sv(st0));
    lemma_path_pop_visited(has, ord, k, vis, dfs_sv(st0), sp, path);
    assert(dfs_inv_pk(dg, st1, vis, s, k2, sp.drop_last(), path));
}

/// yielding the (unvisited) top entry v is a SEARCH STEP for some predecessor p; the search path becomes path[..= p] + [v]
proof fn lemma_dfs_yield_path(dg: &Dg, st0: Seq<usize>, vis0: Seq<bool>, st1: Seq<usize>, vis1: Seq<bool>, v: usize, s: Set<int>, path: Seq<int>)
    requires
        dfs_inv_p(dg, st0, vis0, s, path),
        st0.len() > 0,
        v == st0.last(),
        !vis0[v as int],
        vis1 == vis0.update(v as int, true),
        dfs_yield_at(dg, st0, vis0, st1, vis1, v, st0.len() - 1),
    ensures
        exists|p: Option<int>| dfs_inv_p(dg, st1, vis1, s, #[trigger] path_after(path, p, v as int)) && search_step(arcs_of(dg), dg.ord() as int, s, vis0, path, p, v as int),
{
    let (k, sp) = choose|k: int, sp: Seq<Option<int>>| dfs_inv_pk(dg, st0, vis0, s, k, sp, path);
    let has = arcs_of(dg);
    let ord = dg.ord() as int;
    let n0 = st0.len() - 1;
    let k2 = roots_after_pop(k, st0.len() as int);
    let sv0 = dfs_sv(st0);
    let sv1 = dfs_sv(st1);
    let pushed = sv1.skip(n0);
    let p = sp.last();
    let sp1 = sp.drop_last() + Seq::new(pushed.len(), |i: int| Some(v as int));
    assert(sv0.last() == v as int);
    assert(sv1 =~= sv0.drop_last() + pushed);
    assert forall|x: int| #[trigger] has(v as int, x) && !vis1[x] implies pushed.contains(x) by {
        assert(dg.has(v as int, x));
        assert(on_stack_from(sv1, n0, x));
        let i = choose|i: int| n0 <= i < sv1.len() && #[trigger] sv1[i] == x;
        assert(pushed[i - n0] == x);
    }
    assert forall|j: int| 0 <= j < pushed.len() implies has(v as int, #[trigger] pushed[j]) && !vis1[pushed[j]] by {
        assert(pushed[j] == st1[n0 + j] as int);
    }
    lemma_core_push_step(has, ord, s, k, vis0, sv0, pushed);
    lemma_core_top_preorder(has, ord, s, k, vis0, sv0);
    lemma_path_push_step(has, ord, k, vis0, sv0, sp, path, pushed);
    assert(dfs_wf(dg, st1, vis1)) by {
        assert forall|i: int| 0 <= i < st1.len() implies #[trigger] st1[i] < dg.ord() by {
            assert(sv1[i] == st1[i] as int);
        }
    }
    assert(dfs_inv_pk(dg, st1, vis1, s, k2, sp1, path_after(path, p, v as int)));
    assert(search_step(has, ord, s, vis0, path, p, v as int));
}

/// what `new` establishes: the search invariants hold for the given sources, all of them root entries, empty search path
spec fn dfs_new_post(dg: &Dg, st: Seq<usize>, vis: Seq<bool>, all: Seq<usize>) -> bool {
    &&& dfs_inv_k(dg, st, vis, src_set(all), all.len() as int)
    &&& dfs_inv(dg, st, vis, src_set(all))
    &&& dfs_inv_pk(dg, st, vis, src_set(all), all.len() as int, Seq::new(all.len(), |i: int| None::<int>), Seq::<int>::empty())
    &&& dfs_inv_p(dg, st, vis, src_set(all), Seq::<int>::empty())
}

/// the state built by `new` satisfies the search invariants (empty search path)
proof fn lemma_dfs_new_inv(dg: &Dg, all: Seq<usize>, vis: Seq<bool>)
    requires
        dg.wf(),
        forall|i: int| 0 <= i < all.len() ==> #[trigger] all[i] < dg.ord(),
        vis.len() == dg.ord(),
        forall|i: int| 0 <= i < vis.len() ==> !#[trigger] vis[i],
    ensures
        dfs_new_post(dg, all, vis, all),
{
    lemma_src_set(all);
    let sv = dfs_sv(all);
    assert forall|i: int| 0 <= i < sv.len() implies src_set(all).contains(#[trigger] sv[i]) by {
        assert(all[i] as int == sv[i]);
        assert(is_src(all, sv[i]));
    }
    assert forall|x: int| #[trigger] src_set(all).contains(x) implies 0 <= x < dg.ord() && on_stack_from(sv, 0, x) by {
        assert(is_src(all, x));
        let i = choose|i: int| 0 <= i < all.len() && #[trigger] all[i] as int == x;
        assert(sv[i] == x);
    }
    assert(dfs_inv_k(dg, all, vis, src_set(all), all.len() as int));
    assert(dfs_inv_pk(dg, all, vis, src_set(all), all.len() as int, Seq::new(all.len(), |i: int| None::<int>), Seq::<int>::empty()));
}

impl<'a> Dfs<'a> {
    /// vertices of the stack entries, bottom first
    spec fn sv(&self) -> Seq<int> { dfs_sv(self.stack@) }

    /// memory-safety invariant (C13): everything `next` indexes with is in range
    spec fn wf(&self) -> bool { dfs_wf(self.digraph, self.stack@, self.visited@) }

    /// search invariant w.r.t. the source set `s` (not stored in the struct) and the number `k` of root entries
    spec fn inv_k(&self, s: Set<int>, k: int) -> bool { dfs_inv_k(self.digraph, self.stack@, self.visited@, s, k) }

    /// search invariant w.r.t. the source set `s`
    spec fn inv(&self, s: Set<int>) -> bool { dfs_inv(self.digraph, self.stack@, self.visited@, s) }

    /// search invariant w.r.t. the source set `s` and the current search path `path`
    spec fn inv_p(&self, s: Set<int>, path: Seq<int>) -> bool { dfs_inv_p(self.digraph, self.stack@, self.visited@, s, path) }

    /// EXHAUSTION (C06 "every reachable vertex is yielded"): when the iteration has ended as `next` promises (no
    /// unvisited vertex left on the stack), the visited (= yielded) vertices are exactly the reachable ones
    proof fn lemma_exhausted(&self, s: Set<int>)
        requires
            self.inv(s),
            forall|i: int| 0 <= i < self.stack@.len() ==> self.visited@[#[trigger] self.stack@[i] as int],
        ensures
            visited_is_reachable(arcs_of(self.digraph), self.digraph.ord() as int, s, self.visited@),
    {
        let k = choose|k: int| dfs_inv_k(self.digraph, self.stack@, self.visited@, s, k);
        assert forall|i: int| 0 <= i < self.sv().len() implies self.visited@[#[trigger] self.sv()[i]] by {
            assert(self.visited@[self.stack@[i] as int]);
        }
        lemma_core_exhausted(arcs_of(self.digraph), self.digraph.ord() as int, s, k, self.visited@, self.sv());
    }

    /*@fn impl=Dfs name=new subst=D=>Dg drop=D dropwhere=D
    requires
        digraph.wf(),
        sources.obeys_prophetic_iter_laws(),
        sources.decrease() is Some,
    ensures
        forall|i: int| 0 <= i < sources.remaining().len() ==> #[trigger] sources.remaining()[i] < digraph.ord(),
        r.digraph == digraph,
        r.stack@ == sources.remaining(),
        r.visited@ == Seq::new(digraph.ord(), |i: int| false),
        r.wf(),
        // r.inv_k(S, |sources|), r.inv(S), r.inv_p(S, empty path) for S = set of the sources
        dfs_new_post(r.digraph, r.stack@, r.visited@, sources.remaining()),
    @fn_start
        let ghost all = sources.remaining();
    @loop 1
    invariant
        it1.iter.obeys_prophetic_iter_laws(),
        it1.iter.decrease() is Some,
        it1.seq() == all,
        order == digraph.ord(),
        stack@ =~= it1.seq().take(it1.index()),
        forall|i: int| 0 <= i < it1.index() ==> #[trigger] it1.seq()[i] < order,
    @fn_end
        proof {
            assert(stack@ =~= all);
            assert forall|vis: Seq<bool>| vis.len() == order && (forall|i: int| 0 <= i < vis.len() ==> !#[trigger] vis[i]) implies
                #[trigger] dfs_new_post(digraph, stack@, vis, all) by {
                lemma_dfs_new_inv(digraph, all, vis);
            }
        }
    @*/

    /*@fn impl=Dfs trait=Iterator name=next subst=Self::Item=>usize
    requires
        old(self).wf(),
    ensures
        final(self).wf(),
        final(self).digraph == old(self).digraph,
        // (known defect F2) the iteration may only end when no unvisited vertex is left on the stack
        /*props=C06*/ r is None ==> forall|i: int| 0 <= i < final(self).stack@.len() ==> final(self).visited@[#[trigger] final(self).stack@[i] as int],
        // None: nothing is yielded, nothing is marked; only visited entries are discarded from the top of the stack
        r is None ==> final(self).visited@ == old(self).visited@,
        r is None ==> final(self).stack@.len() <= old(self).stack@.len() && forall|i: int| 0 <= i < final(self).stack@.len() ==> #[trigger] final(self).stack@[i] == old(self).stack@[i],
        r is None ==> forall|i: int| final(self).stack@.len() <= i < old(self).stack@.len() ==> old(self).visited@[#[trigger] old(self).stack@[i] as int],
        // Some(v): v was unvisited (never yielded before) and is the only vertex newly marked
        r is Some ==> r->0 < old(self).digraph.ord() && !old(self).visited@[r->0 as int] && final(self).visited@ == old(self).visited@.update(r->0 as int, true),
        // Some(v): v was the topmost unvisited stack entry; it is replaced by exactly the unvisited out-neighbours of v
        r is Some ==> exists|m: int| dfs_yield_at(old(self).digraph, old(self).stack@, old(self).visited@, final(self).stack@, final(self).visited@, r->0, m),
        // the search invariant is preserved, for every source set it holds for
        forall|s: Set<int>| #[trigger] old(self).inv(s) ==> final(self).inv(s),
        // C06: only reachable vertices are yielded, in depth-first preorder (new root or out-neighbour of a visited vertex)
        r is Some ==> forall|s: Set<int>| #[trigger] old(self).inv(s) ==> reachable(arcs_of(old(self).digraph), s, r->0 as int),
        r is Some ==> forall|s: Set<int>| #[trigger] old(self).inv(s) ==> preorder_step(arcs_of(old(self).digraph), old(self).digraph.ord() as int, s, old(self).visited@, r->0 as int),
        // C06 (search path): v is yielded as a new root or as an out-neighbour of the deepest vertex p on the current search
        // path that still has an unvisited out-neighbour; the search path becomes path[..= p] + [v] ([v] for a root)
        r is None ==> forall|s: Set<int>, path: Seq<int>| #[trigger] old(self).inv_p(s, path) ==> final(self).inv_p(s, path),
        r is Some ==> forall|s: Set<int>, path: Seq<int>| #[trigger] old(self).inv_p(s, path) ==> exists|p: Option<int>| final(self).inv_p(s, #[trigger] path_after(path, p, r->0 as int)) && search_step(arcs_of(old(self).digraph), old(self).digraph.ord() as int, s, old(self).visited@, path, p, r->0 as int),
    @before `return None;`
        proof {
            assert(self.sv() =~= old(self).sv().drop_last());
            assert forall|s: Set<int>| #[trigger] old(self).inv(s) implies self.inv(s) by {
                let k = choose|k: int| dfs_inv_k(old(self).digraph, old(self).stack@, old(self).visited@, s, k);
                lemma_core_pop_visited(arcs_of(self.digraph), self.digraph.ord() as int, s, k, old(self).visited@, old(self).sv());
                assert(self.inv_k(s, roots_after_pop(k, old(self).stack@.len() as int)));
            }
            assert forall|s: Set<int>, path: Seq<int>| #[trigger] old(self).inv_p(s, path) implies self.inv_p(s, path) by {
                lemma_dfs_discard_path(self.digraph, old(self).stack@, old(self).visited@, self.stack@, s, path);
            }
        }
    @loop 1
    invariant
        it1.iter.obeys_prophetic_iter_laws(),
        it1.iter.decrease() is Some,
        self.digraph == old(self).digraph,
        old(self).wf(),
        self.wf(),
        old(self).stack@.len() > 0,
        u == old(self).stack@.last(),
        !old(self).visited@[u as int],
        self.visited@ == old(self).visited@.update(u as int, true),
        self.stack@.len() >= old(self).stack@.len() - 1,
        forall|i: int| 0 <= i < old(self).stack@.len() - 1 ==> #[trigger] self.stack@[i] == old(self).stack@[i],
        forall|i: int| 0 <= i < it1.seq().len() ==> self.digraph.has(u as int, #[trigger] it1.seq()[i] as int),
        forall|j: int| old(self).stack@.len() - 1 <= j < self.stack@.len() ==> self.digraph.has(u as int, #[trigger] self.stack@[j] as int) && !self.visited@[self.stack@[j] as int],
        forall|x: usize| #[trigger] self.digraph.has(u as int, x as int) && !self.visited@[x as int] ==> on_stack_from(self.sv(), old(self).stack@.len() - 1, x as int) || pending(it1.seq(), it1.index(), x),
    @loop_start 1
        let ghost sv_prev = self.sv();
    @loop_end 1
        proof {
            lemma_on_stack_mono(sv_prev, self.sv(), old(self).stack@.len() - 1);
            if !self.visited@[v as int] {
                assert(self.sv()[self.stack@.len() - 1] == v as int);
            }
        }
    @fn_end
        proof {
            let ghost n0 = old(self).stack@.len() - 1;
            let ghost has = arcs_of(self.digraph);
            let ghost ord = self.digraph.ord() as int;
            let ghost pushed = self.sv().skip(n0);
            assert(old(self).sv().last() == u as int);
            assert(self.sv() =~= old(self).sv().drop_last() + pushed);
            assert forall|x: int| #[trigger] self.digraph.has(u as int, x) && !self.visited@[x] implies on_stack_from(self.sv(), n0, x) by {
                let xu = x as usize;
                assert(self.digraph.has(u as int, xu as int));
            }
            assert(dfs_yield_at(old(self).digraph, old(self).stack@, old(self).visited@, self.stack@, self.visited@, u, n0));
            assert forall|x: int| #[trigger] has(u as int, x) && !self.visited@[x] implies pushed.contains(x) by {
                assert(self.digraph.has(u as int, x));
                assert(on_stack_from(self.sv(), n0, x));
                let i = choose|i: int| n0 <= i < self.sv().len() && #[trigger] self.sv()[i] == x;
                assert(pushed[i - n0] == x);
            }
            assert forall|j: int| 0 <= j < pushed.len() implies has(u as int, #[trigger] pushed[j]) && !self.visited@[pushed[j]] by {
                assert(pushed[j] == self.stack@[n0 + j] as int);
            }
            assert forall|s: Set<int>| #[trigger] old(self).inv(s) implies
                self.inv(s)
                && reachable(has, s, u as int)
                && preorder_step(has, ord, s, old(self).visited@, u as int) by {
                let k = choose|k: int| dfs_inv_k(old(self).digraph, old(self).stack@, old(self).visited@, s, k);
                lemma_core_push_step(has, ord, s, k, old(self).visited@, old(self).sv(), pushed);
                lemma_core_top_preorder(has, ord, s, k, old(self).visited@, old(self).sv());
                assert(self.inv_k(s, roots_after_pop(k, old(self).stack@.len() as int)));
            }
            assert forall|s: Set<int>, path: Seq<int>| #[trigger] old(self).inv_p(s, path) implies
                (exists|p: Option<int>| self.inv_p(s, #[trigger] path_after(path, p, u as int)) && search_step(has, ord, s, old(self).visited@, path, p, u as int)) by {
                lemma_dfs_yield_path(self.digraph, old(self).stack@, old(self).visited@, self.stack@, self.visited@, u, s, path);
            }
        }
    @*/
}

// =====================================================================================================================
// DfsDist
// =====================================================================================================================
spec fn dist_sv(st: Seq<(usize, usize)>) -> Seq<int> { Seq::new(st.len(), |i: int| st[i].0 as int) }

spec fn dist_sd(st: Seq<(usize, usize)>) -> Seq<int> { Seq::new(st.len(), |i: int| st[i].1 as int) }

spec fn dist_wf(dg: &Dg, st: Seq<(usize, usize)>, vis: Seq<bool>) -> bool {
    &&& dg.wf()
    &&& vis.len() == dg.ord()
    &&& forall|i: int| 0 <= i < st.len() ==> (#[trigger] st[i]).0 < dg.ord()
    // `w + 1` cannot overflow: depth + number of unvisited vertices <= order
    &&& forall|i: int| 0 <= i < st.len() ==> (#[trigger] st[i]).1 + count_false(vis) <= dg.ord()
}

spec fn dist_inv_k(dg: &Dg, st: Seq<(usize, usize)>, vis: Seq<bool>, s: Set<int>, k: int, dep: Seq<int>) -> bool {
    &&& dist_wf(dg, st, vis)
    &&& dfs_core(arcs_of(dg), dg.ord() as int, s, k, vis, dist_sv(st))
    &&& dist_entries(arcs_of(dg), dg.ord() as int, k, vis, dep, dist_sv(st), dist_sd(st))
}

spec fn dist_inv(dg: &Dg, st: Seq<(usize, usize)>, vis: Seq<bool>, s: Set<int>, dep: Seq<int>) -> bool {
    exists|k: int| dist_inv_k(dg, st, vis, s, k, dep)
}

/// a `Some((v, d))` step: (v, d) = st0[m] is the topmost unvisited entry (the entries above it are visited and
/// discarded); it is replaced by exactly the unvisited out-neighbours of v, each with depth d + 1
spec fn dist_yield_at(dg: &Dg, st0: Seq<(usize, usize)>, vis0: Seq<bool>, st1: Seq<(usize, usize)>, vis1: Seq<bool>, e: (usize, usize), m: int) -> bool {
    &&& 0 <= m < st0.len() && st0[m] == e
    &&& forall|i: int| m < i < st0.len() ==> vis0[(#[trigger] st0[i]).0 as int]
    &&& st1.len() >= m
    &&& forall|i: int| 0 <= i < m ==> #[trigger] st1[i] == st0[i]
    &&& forall|j: int| m <= j < st1.len() ==> dg.has(e.0 as int, (#[trigger] st1[j]).0 as int) && !vis1[st1[j].0 as int] && st1[j].1 == e.1 + 1
    &&& forall|x: int| #[trigger] dg.has(e.0 as int, x) && !vis1[x] ==> on_stack_from(dist_sv(st1), m, x)
}

/// search invariant including the current search path `path`; `sp` are the (ghost) predecessors of the stack entries;
/// the depth of an entry is the number of path vertices down to its predecessor
spec fn dist_inv_pk(dg: &Dg, st: Seq<(usize, usize)>, vis: Seq<bool>, s: Set<int>, k: int, sp: Seq<Option<int>>, path: Seq<int>) -> bool {
    &&& dist_wf(dg, st, vis)
    &&& dfs_core(arcs_of(dg), dg.ord() as int, s, k, vis, dist_sv(st))
    &&& path_inv(arcs_of(dg), dg.ord() as int, k, vis, dist_sv(st), sp, path)
    &&& depth_labels(k, sp, dist_sd(st), path)
}

spec fn dist_inv_p(dg: &Dg, st: Seq<(usize, usize)>, vis: Seq<bool>, s: Set<int>, path: Seq<int>) -> bool {
    exists|k: int, sp: Seq<Option<int>>| dist_inv_pk(dg, st, vis, s, k, sp, path)
}

/// discarding a visited top entry keeps the search-path invariant
proof fn lemma_dist_discard_path(dg: &Dg, st0: Seq<(usize, usize)>, vis: Seq<bool>, st1: Seq<(usize, usize)>, s: Set<int>, path: Seq<int>)
    requires
        dist_inv_p(dg, st0, vis, s, path),
        st0.len() > 0,
        vis[st0.last().0 as int],
        st1 == st0.drop_last(),
    ensures
        dist_inv_p(dg, st1, vis, s, path),
{
    let (k, sp) = choose|k: int, sp: Seq<Option<int>>| dist_inv_pk(dg, st0, vis, s, k, sp, path);
    let has = arcs_of(dg);
    let ord = dg.ord() as int;
    let k2 = roots_after_pop(k, st0.len() as int);
    assert(dist_sv(st1) =~= dist_sv(st0).drop_last());
    assert(dist_sd(st1) =~= dist_sd(st0).drop_last());
    assert(dist_sv(st0).last() == st0.last().0 as int);
    lemma_core_pop_visited(has, ord, s, k, vis, dist_sv(st0));
    lemma_path_pop_visited(has, ord, k, vis, dist_sv(st0), sp, path);
    lemma_depth_pop_visited(k, sp, dist_sd(st0), path);
    assert(dist_inv_pk(dg, st1, vis, s, k2, sp.drop_last(), path));
}

/// yielding the (unvisited) top entry (v, d) is a SEARCH STEP for some predecessor p; the search path becomes
/// path[..= p] + [v] and d is its length minus one, i.e. the depth of v in the search forest
proof fn lemma_dist_yield_path(dg: &Dg, st0: Seq<(usize, usize)>, vis0: Seq<bool>, st1: Seq<(usize, usize)>, vis1: Seq<bool>, e: (usize, usize), s: Set<int>, path: Seq<int>)
    requires
        dist_inv_p(dg, st0, vis0, s, path),
        st0.len() > 0,
        e == st0.last(),
        !vis0[e.0 as int],
        vis1 == vis0.update(e.0 as int, true),
        dist_yield_at(dg, st0, vis0, st1, vis1, e, st0.len() - 1),
    ensures
        exists|p: Option<int>| dist_inv_p(dg, st1, vis1, s, #[trigger] path_after(path, p, e.0 as int))
            && search_step(arcs_of(dg), dg.ord() as int, s, vis0, path, p, e.0 as int)
            && e.1 == path_after(path, p, e.0 as int).len() - 1,
{
    let (k, sp) = choose|k: int, sp: Seq<Option<int>>| dist_inv_pk(dg, st0, vis0, s, k, sp, path);
    let has = arcs_of(dg);
    let ord = dg.ord() as int;
    let n0 = st0.len() - 1;
    let v = e.0 as int;
    let k2 = roots_after_pop(k, st0.len() as int);
    let sv0 = dist_sv(st0);
    let sd0 = dist_sd(st0);
    let sv1 = dist_sv(st1);
    let sd1 = dist_sd(st1);
    let pushed = sv1.skip(n0);
    let p = sp.last();
    let sp1 = sp.drop_last() + Seq::new(pushed.len(), |i: int| Some(v));
    assert(sv0.last() == v && sd0.last() == e.1 as int);
    assert(sv1 =~= sv0.drop_last() + pushed);
    assert(sd1 =~= sd0.drop_last() + Seq::new(pushed.len(), |i: int| sd0.last() + 1)) by {
        assert forall|i: int| n0 <= i < st1.len() implies sd1[i] == e.1 + 1 by {
            assert(st1[i].1 == e.1 + 1);
        }
    }
    assert forall|x: int| #[trigger] has(v, x) && !vis1[x] implies pushed.contains(x) by {
        assert(dg.has(v, x));
        assert(on_stack_from(sv1, n0, x));
        let i = choose|i: int| n0 <= i < sv1.len() && #[trigger] sv1[i] == x;
        assert(pushed[i - n0] == x);
    }
    assert forall|j: int| 0 <= j < pushed.len() implies has(v, #[trigger] pushed[j]) && !vis1[pushed[j]] by {
        assert(pushed[j] == st1[n0 + j].0 as int);
    }
    lemma_core_push_step(has, ord, s, k, vis0, sv0, pushed);
    lemma_core_top_preorder(has, ord, s, k, vis0, sv0);
    lemma_path_push_step(has, ord, k, vis0, sv0, sp, path, pushed);
    lemma_depth_push_step(has, ord, k, vis0, sv0, sp, sd0, path, pushed.len());
    lemma_count_false_update(vis0, v);
    assert(dist_wf(dg, st1, vis1)) by {
        assert forall|i: int| 0 <= i < st1.len() implies (#[trigger] st1[i]).0 < dg.ord() by {
            assert(sv1[i] == st1[i].0 as int);
        }
        assert forall|i: int| 0 <= i < st1.len() implies (#[trigger] st1[i]).1 + count_false(vis1) <= dg.ord() by {
            if i < n0 { assert(st1[i] == st0[i]); } else { assert(st1[i].1 == e.1 + 1); }
        }
    }
    assert(dist_inv_pk(dg, st1, vis1, s, k2, sp1, path_after(path, p, v)));
    assert(search_step(has, ord, s, vis0, path, p, v));
}

/// what `new` establishes: the search invariants hold for the given sources, all of them root entries, any depth record,
/// empty search path
spec fn dist_new_post(dg: &Dg, st: Seq<(usize, usize)>, vis: Seq<bool>, all: Seq<usize>) -> bool {
    &&& dist_wf(dg, st, vis)
    &&& forall|dep: Seq<int>| #![trigger dist_inv_k(dg, st, vis, src_set(all), all.len() as int, dep)] #![trigger dist_inv(dg, st, vis, src_set(all), dep)]
            dep.len() == dg.ord() ==> dist_inv_k(dg, st, vis, src_set(all), all.len() as int, dep) && dist_inv(dg, st, vis, src_set(all), dep)
    &&& dist_inv_pk(dg, st, vis, src_set(all), all.len() as int, Seq::new(all.len(), |i: int| None::<int>), Seq::<int>::empty())
    &&& dist_inv_p(dg, st, vis, src_set(all), Seq::<int>::empty())
}

/// the state built by `new` satisfies the search invariants (empty search path, any depth record)
proof fn lemma_dist_new_inv(dg: &Dg, all: Seq<usize>, st: Seq<(usize, usize)>, vis: Seq<bool>)
    requires
        dg.wf(),
        st == Seq::new(all.len(), |i: int| (all[i], 0usize)),
        forall|i: int| 0 <= i < all.len() ==> #[trigger] all[i] < dg.ord(),
        vis.len() == dg.ord(),
        forall|i: int| 0 <= i < vis.len() ==> !#[trigger] vis[i],
    ensures
        dist_new_post(dg, st, vis, all),
{
    lemma_src_set(all);
    lemma_count_false_bound(vis);
    let sv = dist_sv(st);
    assert forall|i: int| 0 <= i < sv.len() implies src_set(all).contains(#[trigger] sv[i]) by {
        assert(all[i] as int == sv[i]);
        assert(is_src(all, sv[i]));
    }
    assert forall|x: int| #[trigger] src_set(all).contains(x) implies 0 <= x < dg.ord() && on_stack_from(sv, 0, x) by {
        assert(is_src(all, x));
        let i = choose|i: int| 0 <= i < all.len() && #[trigger] all[i] as int == x;
        assert(sv[i] == x);
    }
    assert(dist_wf(dg, st, vis));
    assert(dfs_core(arcs_of(dg), dg.ord() as int, src_set(all), all.len() as int, vis, sv));
    assert forall|dep: Seq<int>| dep.len() == dg.ord() implies #[trigger] dist_inv_k(dg, st, vis, src_set(all), all.len() as int, dep) by {}
    assert forall|dep: Seq<int>| dep.len() == dg.ord() implies #[trigger] dist_inv(dg, st, vis, src_set(all), dep) by {
        assert(dist_inv_k(dg, st, vis, src_set(all), all.len() as int, dep));
    }
    assert(dist_inv_pk(dg, st, vis, src_set(all), all.len() as int, Seq::new(all.len(), |i: int| None::<int>), Seq::<int>::empty()));
}

impl<'a> DfsDist<'a> {
    /// vertices / depths of the stack entries, bottom first
    spec fn sv(&self) -> Seq<int> { dist_sv(self.stack@) }
    spec fn sd(&self) -> Seq<int> { dist_sd(self.stack@) }

    /// memory-safety invariant (C13): indices in range, `w + 1` cannot overflow
    spec fn wf(&self) -> bool { dist_wf(self.digraph, self.stack@, self.visited@) }

    /// search invariant w.r.t. source set `s`, root count `k` and the depths `dep` reported so far
    spec fn inv_k(&self, s: Set<int>, k: int, dep: Seq<int>) -> bool { dist_inv_k(self.digraph, self.stack@, self.visited@, s, k, dep) }

    /// search invariant w.r.t. source set `s` and the depths `dep` reported so far
    spec fn inv(&self, s: Set<int>, dep: Seq<int>) -> bool { dist_inv(self.digraph, self.stack@, self.visited@, s, dep) }

    /// search invariant w.r.t. the source set `s` and the current search path `path`
    spec fn inv_p(&self, s: Set<int>, path: Seq<int>) -> bool { dist_inv_p(self.digraph, self.stack@, self.visited@, s, path) }

    /// EXHAUSTION (C06 "every reachable vertex is yielded"), as for Dfs
    proof fn lemma_exhausted(&self, s: Set<int>, dep: Seq<int>)
        requires
            self.inv(s, dep),
            forall|i: int| 0 <= i < self.stack@.len() ==> self.visited@[(#[trigger] self.stack@[i]).0 as int],
        ensures
            visited_is_reachable(arcs_of(self.digraph), self.digraph.ord() as int, s, self.visited@),
    {
        let k = choose|k: int| dist_inv_k(self.digraph, self.stack@, self.visited@, s, k, dep);
        assert forall|i: int| 0 <= i < self.sv().len() implies self.visited@[#[trigger] self.sv()[i]] by {
            assert(self.visited@[self.stack@[i].0 as int]);
        }
        lemma_core_exhausted(arcs_of(self.digraph), self.digraph.ord() as int, s, k, self.visited@, self.sv());
    }

    /*@fn impl=DfsDist name=new file=src/algo/dfs_dist.rs subst=D=>Dg drop=D dropwhere=D
    requires
        digraph.wf(),
        sources.obeys_prophetic_iter_laws(),
        sources.decrease() is Some,
    ensures
        forall|i: int| 0 <= i < sources.remaining().len() ==> #[trigger] sources.remaining()[i] < digraph.ord(),
        r.digraph == digraph,
        r.stack@ == Seq::new(sources.remaining().len(), |i: int| (sources.remaining()[i], 0usize)),
        r.visited@ == Seq::new(digraph.ord(), |i: int| false),
        r.wf(),
        // r.inv_k(S, |sources|, dep), r.inv(S, dep) for every depth record dep, r.inv_p(S, empty path)
        dist_new_post(r.digraph, r.stack@, r.visited@, sources.remaining()),
    @fn_start
        let ghost all = sources.remaining();
    @loop 1
    invariant
        it1.iter.obeys_prophetic_iter_laws(),
        it1.iter.decrease() is Some,
        it1.seq() == all,
        order == digraph.ord(),
        stack@ =~= Seq::new(it1.index() as nat, |i: int| (all[i], 0usize)),
        0 <= it1.index() <= all.len(),
        forall|i: int| 0 <= i < it1.index() ==> #[trigger] it1.seq()[i] < order,
    @fn_end
        proof {
            assert(stack@ =~= Seq::new(all.len(), |i: int| (all[i], 0usize)));
            assert forall|q: Seq<bool>| #[trigger] count_false(q) <= q.len() by { lemma_count_false_bound(q); }
            assert forall|vis: Seq<bool>| vis.len() == order && (forall|i: int| 0 <= i < vis.len() ==> !#[trigger] vis[i]) implies
                #[trigger] dist_new_post(digraph, stack@, vis, all) by {
                lemma_dist_new_inv(digraph, all, stack@, vis);
            }
        }
    @*/

    /*@fn impl=DfsDist trait=Iterator name=next file=src/algo/dfs_dist.rs subst=Self::Item=>Step
    requires
        old(self).wf(),
    ensures
        final(self).wf(),
        final(self).digraph == old(self).digraph,
        // (known defect F2) the iteration may only end when no unvisited vertex is left on the stack
        /*props=C06*/ r is None ==> forall|i: int| 0 <= i < final(self).stack@.len() ==> final(self).visited@[(#[trigger] final(self).stack@[i]).0 as int],
        // None: nothing is yielded, nothing is marked; only visited entries are discarded from the top of the stack
        r is None ==> final(self).visited@ == old(self).visited@,
        r is None ==> final(self).stack@.len() <= old(self).stack@.len() && forall|i: int| 0 <= i < final(self).stack@.len() ==> #[trigger] final(self).stack@[i] == old(self).stack@[i],
        r is None ==> forall|i: int| final(self).stack@.len() <= i < old(self).stack@.len() ==> old(self).visited@[(#[trigger] old(self).stack@[i]).0 as int],
        // Some((v, d)): v was unvisited (never yielded before) and is the only vertex newly marked
        r is Some ==> (r->0).0 < old(self).digraph.ord() && !old(self).visited@[(r->0).0 as int] && final(self).visited@ == old(self).visited@.update((r->0).0 as int, true),
        // Some((v, d)): (v, d) was the topmost unvisited stack entry; it is replaced by exactly the unvisited out-neighbours of v, with depth d + 1
        r is Some ==> exists|m: int| dist_yield_at(old(self).digraph, old(self).stack@, old(self).visited@, final(self).stack@, final(self).visited@, r->0, m),
        // the search invariant is preserved; the reported depth of the yielded vertex is recorded in `dep`
        forall|s: Set<int>, dep: Seq<int>| #[trigger] old(self).inv(s, dep) ==> final(self).inv(s, if r is Some { dep.update((r->0).0 as int, (r->0).1 as int) } else { dep }),
        // C06: only reachable vertices are yielded, in depth-first preorder, with their depth in the search forest
        r is Some ==> forall|s: Set<int>, dep: Seq<int>| #[trigger] old(self).inv(s, dep) ==> reachable(arcs_of(old(self).digraph), s, (r->0).0 as int),
        r is Some ==> forall|s: Set<int>, dep: Seq<int>| #[trigger] old(self).inv(s, dep) ==> preorder_step(arcs_of(old(self).digraph), old(self).digraph.ord() as int, s, old(self).visited@, (r->0).0 as int),
        r is Some ==> forall|s: Set<int>, dep: Seq<int>| #[trigger] old(self).inv(s, dep) ==> dist_step(arcs_of(old(self).digraph), old(self).digraph.ord() as int, s, old(self).visited@, dep, (r->0).0 as int, (r->0).1 as int),
        // C06 (search path): v is yielded as a new root or as an out-neighbour of the deepest vertex p on the current search
        // path that still has an unvisited out-neighbour; the search path becomes path[..= p] + [v] ([v] for a root) and the
        // reported depth is the depth of v in that search tree (the length of the new search path minus one)
        r is None ==> forall|s: Set<int>, path: Seq<int>| #[trigger] old(self).inv_p(s, path) ==> final(self).inv_p(s, path),
        r is Some ==> forall|s: Set<int>, path: Seq<int>| #[trigger] old(self).inv_p(s, path) ==> exists|p: Option<int>| final(self).inv_p(s, #[trigger] path_after(path, p, (r->0).0 as int)) && search_step(arcs_of(old(self).digraph), old(self).digraph.ord() as int, s, old(self).visited@, path, p, (r->0).0 as int) && (r->0).1 == path_after(path, p, (r->0).0 as int).len() - 1,
    @before `return None;`
        proof {
            assert(self.sv() =~= old(self).sv().drop_last());
            assert(self.sd() =~= old(self).sd().drop_last());
            assert forall|s: Set<int>, dep: Seq<int>| #[trigger] old(self).inv(s, dep) implies self.inv(s, dep) by {
                let k = choose|k: int| dist_inv_k(old(self).digraph, old(self).stack@, old(self).visited@, s, k, dep);
                lemma_core_pop_visited(arcs_of(self.digraph), self.digraph.ord() as int, s, k, old(self).visited@, old(self).sv());
                lemma_dist_pop_visited(arcs_of(self.digraph), self.digraph.ord() as int, k, old(self).visited@, dep, old(self).sv(), old(self).sd());
                assert(self.inv_k(s, roots_after_pop(k, old(self).stack@.len() as int), dep));
            }
            assert forall|s: Set<int>, path: Seq<int>| #[trigger] old(self).inv_p(s, path) implies self.inv_p(s, path) by {
                lemma_dist_discard_path(self.digraph, old(self).stack@, old(self).visited@, self.stack@, s, path);
            }
        }
    @before `let w = w + 1;`
        proof {
            lemma_count_false_update(old(self).visited@, u as int);
        }
    @loop 1
    invariant
        it1.iter.obeys_prophetic_iter_laws(),
        it1.iter.decrease() is Some,
        self.digraph == old(self).digraph,
        old(self).wf(),
        self.wf(),
        old(self).stack@.len() > 0,
        step == old(self).stack@.last(),
        u == step.0,
        w == step.1 + 1,
        w + count_false(self.visited@) <= self.digraph.ord(),
        !old(self).visited@[u as int],
        self.visited@ == old(self).visited@.update(u as int, true),
        self.stack@.len() >= old(self).stack@.len() - 1,
        forall|i: int| 0 <= i < old(self).stack@.len() - 1 ==> #[trigger] self.stack@[i] == old(self).stack@[i],
        forall|i: int| 0 <= i < it1.seq().len() ==> self.digraph.has(u as int, #[trigger] it1.seq()[i] as int),
        forall|j: int| old(self).stack@.len() - 1 <= j < self.stack@.len() ==> self.digraph.has(u as int, (#[trigger] self.stack@[j]).0 as int) && !self.visited@[self.stack@[j].0 as int] && self.stack@[j].1 == w,
        forall|x: usize| #[trigger] self.digraph.has(u as int, x as int) && !self.visited@[x as int] ==> on_stack_from(self.sv(), old(self).stack@.len() - 1, x as int) || pending(it1.seq(), it1.index(), x),
    @loop_start 1
        let ghost sv_prev = self.sv();
    @loop_end 1
        proof {
            lemma_on_stack_mono(sv_prev, self.sv(), old(self).stack@.len() - 1);
            if !self.visited@[v as int] {
                assert(self.sv()[self.stack@.len() - 1] == v as int);
            }
        }
    @fn_end
        proof {
            let ghost n0 = old(self).stack@.len() - 1;
            let ghost has = arcs_of(self.digraph);
            let ghost ord = self.digraph.ord() as int;
            let ghost pushed = self.sv().skip(n0);
            let ghost pd = self.sd().skip(n0);
            assert(old(self).sv().last() == u as int);
            assert(old(self).sd().last() == step.1 as int);
            assert(self.sv() =~= old(self).sv().drop_last() + pushed && self.sd() =~= old(self).sd().drop_last() + pd);
            assert forall|x: int| #[trigger] self.digraph.has(u as int, x) && !self.visited@[x] implies on_stack_from(self.sv(), n0, x) by {
                let xu = x as usize;
                assert(self.digraph.has(u as int, xu as int));
            }
            assert(dist_yield_at(old(self).digraph, old(self).stack@, old(self).visited@, self.stack@, self.visited@, step, n0));
            assert forall|x: int| #[trigger] has(u as int, x) && !self.visited@[x] implies pushed.contains(x) by {
                assert(self.digraph.has(u as int, x));
                assert(on_stack_from(self.sv(), n0, x));
                let i = choose|i: int| n0 <= i < self.sv().len() && #[trigger] self.sv()[i] == x;
                assert(pushed[i - n0] == x);
            }
            assert forall|j: int| 0 <= j < pushed.len() implies has(u as int, #[trigger] pushed[j]) && !self.visited@[pushed[j]] by {
                assert(pushed[j] == self.stack@[n0 + j].0 as int);
            }
            assert forall|j: int| 0 <= j < pushed.len() implies #[trigger] pd[j] == step.1 + 1 by {
                assert(pd[j] == self.stack@[n0 + j].1 as int);
            }
            assert forall|s: Set<int>, dep: Seq<int>| #[trigger] old(self).inv(s, dep) implies
                self.inv(s, dep.update(u as int, step.1 as int))
                && reachable(has, s, u as int)
                && preorder_step(has, ord, s, old(self).visited@, u as int)
                && dist_step(has, ord, s, old(self).visited@, dep, u as int, step.1 as int) by {
                let k = choose|k: int| dist_inv_k(old(self).digraph, old(self).stack@, old(self).visited@, s, k, dep);
                lemma_core_push_step(has, ord, s, k, old(self).visited@, old(self).sv(), pushed);
                lemma_core_top_preorder(has, ord, s, k, old(self).visited@, old(self).sv());
                lemma_dist_push_step(has, ord, k, old(self).visited@, dep, old(self).sv(), old(self).sd(), pushed, pd);
                lemma_dist_top(has, ord, s, k, old(self).visited@, dep, old(self).sv(), old(self).sd());
                assert(self.inv_k(s, roots_after_pop(k, old(self).stack@.len() as int), dep.update(u as int, step.1 as int)));
            }
            assert forall|s: Set<int>, path: Seq<int>| #[trigger] old(self).inv_p(s, path) implies
                (exists|p: Option<int>| self.inv_p(s, #[trigger] path_after(path, p, u as int)) && search_step(has, ord, s, old(self).visited@, path, p, u as int) && step.1 == path_after(path, p, u as int).len() - 1) by {
                lemma_dist_yield_path(self.digraph, old(self).stack@, old(self).visited@, self.stack@, self.visited@, step, s, path);
            }
        }
    @*/
}

// =====================================================================================================================
// DfsPred
// =====================================================================================================================
/// recorded predecessors of the stack entries as Option<int>
spec fn opt_int(p: Option<usize>) -> Option<int> { match p { Some(q) => Some(q as int), None => None } }

spec fn pred_sp(st: Seq<(Option<usize>, usize)>) -> Seq<Option<int>> { Seq::new(st.len(), |i: int| opt_int(st[i].0)) }

/// search invariant including the current search path `path` (see speclib/dfs_lemmas.rs, path_inv)
spec fn pred_inv_pk(dg: &Dg, st: Seq<(Option<usize>, usize)>, vis: Seq<bool>, s: Set<int>, k: int, path: Seq<int>) -> bool {
    &&& pred_inv_k(dg, st, vis, s, k)
    &&& path_inv(arcs_of(dg), dg.ord() as int, k, vis, pred_sv(st), pred_sp(st), path)
}

spec fn pred_inv_p(dg: &Dg, st: Seq<(Option<usize>, usize)>, vis: Seq<bool>, s: Set<int>, path: Seq<int>) -> bool {
    exists|k: int| pred_inv_pk(dg, st, vis, s, k, path)
}

/// discarding a visited top entry keeps the search-path invariant
proof fn lemma_pred_discard_path(dg: &Dg, st0: Seq<(Option<usize>, usize)>, vis: Seq<bool>, st1: Seq<(Option<usize>, usize)>, s: Set<int>, path: Seq<int>)
    requires
        pred_inv_p(dg, st0, vis, s, path),
        st0.len() > 0,
        vis[st0.last().1 as int],
        st1 == st0.drop_last(),
    ensures
        pred_inv_p(dg, st1, vis, s, path),
{
    let k = choose|k: int| pred_inv_pk(dg, st0, vis, s, k, path);
    let has = arcs_of(dg);
    let ord = dg.ord() as int;
    let k2 = roots_after_pop(k, st0.len() as int);
    assert(pred_sv(st1) =~= pred_sv(st0).drop_last());
    assert(pred_sp(st1) =~= pred_sp(st0).drop_last());
    assert(pred_sv(st0).last() == st0.last().1 as int);
    lemma_core_pop_visited(has, ord, s, k, vis, pred_sv(st0));
    lemma_path_pop_visited(has, ord, k, vis, pred_sv(st0), pred_sp(st0), path);
    assert(pred_inv_pk(dg, st1, vis, s, k2, path));
}

/// yielding the (unvisited) top entry e = (p, v): the search path becomes path[..= p] + [v] (or [v] for a root), and p
/// was the deepest path vertex with an unvisited out-neighbour
proof fn lemma_pred_yield_path(dg: &Dg, st0: Seq<(Option<usize>, usize)>, vis0: Seq<bool>, st1: Seq<(Option<usize>, usize)>, vis1: Seq<bool>, e: (Option<usize>, usize), s: Set<int>, path: Seq<int>)
    requires
        pred_inv_p(dg, st0, vis0, s, path),
        st0.len() > 0,
        e == st0.last(),
        !vis0[e.1 as int],
        vis1 == vis0.update(e.1 as int, true),
        pred_yield_at(dg, st0, vis0, st1, vis1, e, st0.len() - 1),
    ensures
        pred_inv_p(dg, st1, vis1, s, path_after(path, opt_int(e.0), e.1 as int)),
        e.0 is Some ==> deepest_step(arcs_of(dg), dg.ord() as int, vis0, path, e.0->0 as int, e.1 as int),
        e.0 is None ==> visited_closed(arcs_of(dg), dg.ord() as int, vis0),
{
    let k = choose|k: int| pred_inv_pk(dg, st0, vis0, s, k, path);
    let has = arcs_of(dg);
    let ord = dg.ord() as int;
    let n0 = st0.len() - 1;
    let v = e.1 as int;
    let k2 = roots_after_pop(k, st0.len() as int);
    let sv0 = pred_sv(st0);
    let sp0 = pred_sp(st0);
    let sv1 = pred_sv(st1);
    let sp1 = pred_sp(st1);
    let pushed = sv1.skip(n0);
    assert(sv0.last() == v && sp0.last() == opt_int(e.0));
    assert(sv1 =~= sv0.drop_last() + pushed);
    assert(sp1 =~= sp0.drop_last() + Seq::new(pushed.len(), |i: int| Some(v))) by {
        assert forall|i: int| n0 <= i < st1.len() implies sp1[i] == Some(v) by {
            assert(st1[i].0 == Some(e.1));
        }
    }
    assert forall|x: int| #[trigger] has(v, x) && !vis1[x] implies pushed.contains(x) by {
        assert(dg.has(v, x));
        assert(on_stack_from(sv1, n0, x));
        let i = choose|i: int| n0 <= i < sv1.len() && #[trigger] sv1[i] == x;
        assert(pushed[i - n0] == x);
    }
    assert forall|j: int| 0 <= j < pushed.len() implies has(v, #[trigger] pushed[j]) && !vis1[pushed[j]] by {
        assert(pushed[j] == st1[n0 + j].1 as int);
    }
    lemma_core_push_step(has, ord, s, k, vis0, sv0, pushed);
    lemma_path_push_step(has, ord, k, vis0, sv0, sp0, path, pushed);
    assert(pred_wf(dg, st1, vis1)) by {
        assert forall|i: int| 0 <= i < st1.len() implies (#[trigger] st1[i]).1 < dg.ord() by {
            assert(sv1[i] == st1[i].1 as int);
        }
        assert forall|i: int| 0 <= i < st1.len() && (#[trigger] st1[i]).0 is Some implies ({
                let q = st1[i].0->0;
                q < dg.ord() && vis1[q as int] && dg.has(q as int, st1[i].1 as int) }) by {
            if i < n0 { assert(st1[i] == st0[i]); }
        }
    }
    assert forall|i: int| 0 <= i < st1.len() implies ((#[trigger] st1[i]).0 is None <==> i < k2) by {
        if i < n0 { assert(st1[i] == st0[i]); }
    }
    assert(pred_inv_pk(dg, st1, vis1, s, k2, path_after(path, opt_int(e.0), v)));
}

/// what `new` establishes: the search invariants hold for the given sources, all of them root entries, empty search path
spec fn pred_new_post(dg: &Dg, st: Seq<(Option<usize>, usize)>, vis: Seq<bool>, all: Seq<usize>) -> bool {
    &&& pred_inv_k(dg, st, vis, src_set(all), all.len() as int)
    &&& pred_inv(dg, st, vis, src_set(all))
    &&& pred_inv_pk(dg, st, vis, src_set(all), all.len() as int, Seq::<int>::empty())
    &&& pred_inv_p(dg, st, vis, src_set(all), Seq::<int>::empty())
}

/// the state built by `new` satisfies the search invariants (empty search path)
proof fn lemma_pred_new_inv(dg: &Dg, all: Seq<usize>, st: Seq<(Option<usize>, usize)>, vis: Seq<bool>)
    requires
        dg.wf(),
        st == Seq::new(all.len(), |i: int| (None::<usize>, all[i])),
        forall|i: int| 0 <= i < all.len() ==> #[trigger] all[i] < dg.ord(),
        vis.len() == dg.ord(),
        forall|i: int| 0 <= i < vis.len() ==> !#[trigger] vis[i],
    ensures
        pred_new_post(dg, st, vis, all),
{
    lemma_src_set(all);
    let sv = pred_sv(st);
    assert forall|i: int| 0 <= i < sv.len() implies src_set(all).contains(#[trigger] sv[i]) by {
        assert(all[i] as int == sv[i]);
        assert(is_src(all, sv[i]));
    }
    assert forall|x: int| #[trigger] src_set(all).contains(x) implies 0 <= x < dg.ord() && on_stack_from(sv, 0, x) by {
        assert(is_src(all, x));
        let i = choose|i: int| 0 <= i < all.len() && #[trigger] all[i] as int == x;
        assert(sv[i] == x);
    }
    assert(pred_wf(dg, st, vis));
    assert(dfs_core(arcs_of(dg), dg.ord() as int, src_set(all), all.len() as int, vis, sv));
    assert(pred_inv_k(dg, st, vis, src_set(all), all.len() as int));
    assert(pred_inv_pk(dg, st, vis, src_set(all), all.len() as int, Seq::<int>::empty()));
}

impl PredecessorTree {
    /*@fn impl=PredecessorTree name=new file=src/algo/predecessor_tree.rs
    ensures
        order > 0,
        r.pred@ == Seq::new(order as nat, |i: int| None::<usize>),
    @*/
}

// the DfsPred invariants as functions of the parts of the state
spec fn pred_sv(st: Seq<(Option<usize>, usize)>) -> Seq<int> { Seq::new(st.len(), |i: int| st[i].1 as int) }

spec fn pred_wf(dg: &Dg, st: Seq<(Option<usize>, usize)>, vis: Seq<bool>) -> bool {
    &&& dg.wf()
    &&& vis.len() == dg.ord()
    &&& forall|i: int| 0 <= i < st.len() ==> (#[trigger] st[i]).1 < dg.ord()
    &&& forall|i: int| 0 <= i < st.len() && (#[trigger] st[i]).0 is Some ==> {
            let q = st[i].0->0;
            q < dg.ord() && vis[q as int] && dg.has(q as int, st[i].1 as int) }
}

spec fn pred_inv_k(dg: &Dg, st: Seq<(Option<usize>, usize)>, vis: Seq<bool>, s: Set<int>, k: int) -> bool {
    &&& pred_wf(dg, st, vis)
    &&& dfs_core(arcs_of(dg), dg.ord() as int, s, k, vis, pred_sv(st))
    &&& forall|i: int| 0 <= i < st.len() ==> ((#[trigger] st[i]).0 is None <==> i < k)
}

spec fn pred_inv(dg: &Dg, st: Seq<(Option<usize>, usize)>, vis: Seq<bool>, s: Set<int>) -> bool {
    exists|k: int| pred_inv_k(dg, st, vis, s, k)
}

/// a `Some((p, v))` step: (p, v) = st0[m] is the topmost unvisited entry (the entries above it are visited and
/// discarded); it is replaced by exactly the unvisited out-neighbours of v, each with predecessor v
spec fn pred_yield_at(dg: &Dg, st0: Seq<(Option<usize>, usize)>, vis0: Seq<bool>, st1: Seq<(Option<usize>, usize)>, vis1: Seq<bool>, e: (Option<usize>, usize), m: int) -> bool {
    &&& 0 <= m < st0.len() && st0[m] == e
    &&& forall|i: int| m < i < st0.len() ==> vis0[(#[trigger] st0[i]).1 as int]
    &&& st1.len() >= m
    &&& forall|i: int| 0 <= i < m ==> #[trigger] st1[i] == st0[i]
    &&& forall|j: int| m <= j < st1.len() ==> (#[trigger] st1[j]).0 == Some(e.1) && dg.has(e.1 as int, st1[j].1 as int) && !vis1[st1[j].1 as int]
    &&& forall|x: int| #[trigger] dg.has(e.1 as int, x) && !vis1[x] ==> on_stack_from(pred_sv(st1), m, x)
}

impl<'a> DfsPred<'a> {
    /// vertices of the stack entries, bottom first
    spec fn sv(&self) -> Seq<int> { pred_sv(self.stack@) }

    /// memory-safety invariant (C13) + every recorded predecessor is a visited in-neighbour
    spec fn wf(&self) -> bool { pred_wf(self.digraph, self.stack@, self.visited@) }

    /// search invariant w.r.t. source set `s` and root count `k`: the root entries are exactly the entries (None, _)
    spec fn inv_k(&self, s: Set<int>, k: int) -> bool { pred_inv_k(self.digraph, self.stack@, self.visited@, s, k) }

    /// search invariant w.r.t. source set `s`
    spec fn inv(&self, s: Set<int>) -> bool { pred_inv(self.digraph, self.stack@, self.visited@, s) }

    /// search invariant w.r.t. source set `s` and the current search path `path`
    spec fn inv_p(&self, s: Set<int>, path: Seq<int>) -> bool { pred_inv_p(self.digraph, self.stack@, self.visited@, s, path) }

    /// EXHAUSTION (C06 "every reachable vertex is yielded"), as for Dfs
    proof fn lemma_exhausted(&self, s: Set<int>)
        requires
            self.inv(s),
            forall|i: int| 0 <= i < self.stack@.len() ==> self.visited@[(#[trigger] self.stack@[i]).1 as int],
        ensures
            visited_is_reachable(arcs_of(self.digraph), self.digraph.ord() as int, s, self.visited@),
    {
        let k = choose|k: int| pred_inv_k(self.digraph, self.stack@, self.visited@, s, k);
        assert forall|i: int| 0 <= i < self.sv().len() implies self.visited@[#[trigger] self.sv()[i]] by {
            assert(self.visited@[self.stack@[i].1 as int]);
        }
        lemma_core_exhausted(arcs_of(self.digraph), self.digraph.ord() as int, s, k, self.visited@, self.sv());
    }

    /*@fn impl=DfsPred name=new file=src/algo/dfs_pred.rs subst=D=>Dg;Step=>(Option<usize>,usize) drop=D dropwhere=D
    requires
        digraph.wf(),
        sources.obeys_prophetic_iter_laws(),
        sources.decrease() is Some,
    ensures
        forall|i: int| 0 <= i < sources.remaining().len() ==> #[trigger] sources.remaining()[i] < digraph.ord(),
        r.digraph == digraph,
        r.stack@ == Seq::new(sources.remaining().len(), |i: int| (None::<usize>, sources.remaining()[i])),
        r.visited@ == Seq::new(digraph.ord(), |i: int| false),
        r.wf(),
        // r.inv_k(S, |sources|), r.inv(S), r.inv_p(S, empty path) for S = set of the sources
        pred_new_post(r.digraph, r.stack@, r.visited@, sources.remaining()),
    @fn_start
        let ghost all = sources.remaining();
    @loop 1
    invariant
        it1.iter.obeys_prophetic_iter_laws(),
        it1.iter.decrease() is Some,
        it1.seq() == all,
        order == digraph.ord(),
        stack@ =~= Seq::new(it1.index() as nat, |i: int| (None::<usize>, all[i])),
        0 <= it1.index() <= all.len(),
        forall|i: int| 0 <= i < it1.index() ==> #[trigger] it1.seq()[i] < order,
    @fn_end
        proof {
            assert(stack@ =~= Seq::new(all.len(), |i: int| (None::<usize>, all[i])));
            assert forall|vis: Seq<bool>| vis.len() == order && (forall|i: int| 0 <= i < vis.len() ==> !#[trigger] vis[i]) implies
                #[trigger] pred_new_post(digraph, stack@, vis, all) by {
                lemma_pred_new_inv(digraph, all, stack@, vis);
            }
        }
    @*/

    /*@fn impl=DfsPred trait=Iterator name=next file=src/algo/dfs_pred.rs subst=Self::Item=>(Option<usize>,usize);Step=>(Option<usize>,usize)
    requires
        old(self).wf(),
    ensures
        final(self).wf(),
        final(self).digraph == old(self).digraph,
        // (known defect F2) the iteration may only end when no unvisited vertex is left on the stack
        /*props=C06*/ r is None ==> forall|i: int| 0 <= i < final(self).stack@.len() ==> final(self).visited@[(#[trigger] final(self).stack@[i]).1 as int],
        // None: nothing is yielded, nothing is marked; only visited entries are discarded from the top of the stack
        r is None ==> final(self).visited@ == old(self).visited@,
        r is None ==> final(self).stack@.len() <= old(self).stack@.len() && forall|i: int| 0 <= i < final(self).stack@.len() ==> #[trigger] final(self).stack@[i] == old(self).stack@[i],
        r is None ==> forall|i: int| final(self).stack@.len() <= i < old(self).stack@.len() ==> old(self).visited@[(#[trigger] old(self).stack@[i]).1 as int],
        // Some((p, v)): v was unvisited (never yielded before) and is the only vertex newly marked
        r is Some ==> (r->0).1 < old(self).digraph.ord() && !old(self).visited@[(r->0).1 as int] && final(self).visited@ == old(self).visited@.update((r->0).1 as int, true),
        // Some((p, v)): (p, v) was the topmost unvisited stack entry; it is replaced by exactly the unvisited out-neighbours of v, with predecessor v
        r is Some ==> exists|m: int| pred_yield_at(old(self).digraph, old(self).stack@, old(self).visited@, final(self).stack@, final(self).visited@, r->0, m),
        // C06: a reported predecessor q of v is an already visited (= yielded) vertex with an arc q -> v
        r is Some && (r->0).0 is Some ==> (r->0).0->0 < old(self).digraph.ord() && old(self).visited@[(r->0).0->0 as int] && old(self).digraph.has((r->0).0->0 as int, (r->0).1 as int),
        // the search invariant is preserved, for every source set it holds for
        forall|s: Set<int>| #[trigger] old(self).inv(s) ==> final(self).inv(s),
        // C06: only reachable vertices are yielded, in depth-first preorder; None is reported exactly for new roots
        r is Some ==> forall|s: Set<int>| #[trigger] old(self).inv(s) ==> reachable(arcs_of(old(self).digraph), s, (r->0).1 as int),
        r is Some ==> forall|s: Set<int>| #[trigger] old(self).inv(s) ==> preorder_step(arcs_of(old(self).digraph), old(self).digraph.ord() as int, s, old(self).visited@, (r->0).1 as int),
        r is Some ==> forall|s: Set<int>| #[trigger] old(self).inv(s) ==> pred_step(arcs_of(old(self).digraph), old(self).digraph.ord() as int, s, old(self).visited@, (r->0).0, (r->0).1 as int),
        // C06 (search path): after yielding (p, v) the current search path is path[..= p] + [v], or [v] for a new root
        forall|s: Set<int>, path: Seq<int>| #[trigger] old(self).inv_p(s, path) ==> final(self).inv_p(s, if r is Some { path_after(path, opt_int((r->0).0), (r->0).1 as int) } else { path }),
        // C06: a reported predecessor is the deepest vertex on the current search path that still has an unvisited out-neighbour
        r is Some && (r->0).0 is Some ==> forall|s: Set<int>, path: Seq<int>| #[trigger] old(self).inv_p(s, path) ==> deepest_step(arcs_of(old(self).digraph), old(self).digraph.ord() as int, old(self).visited@, path, (r->0).0->0 as int, (r->0).1 as int),
    @before `return None;`
        proof {
            assert(self.sv() =~= old(self).sv().drop_last());
            assert forall|s: Set<int>| #[trigger] old(self).inv(s) implies self.inv(s) by {
                let k = choose|k: int| pred_inv_k(old(self).digraph, old(self).stack@, old(self).visited@, s, k);
                lemma_core_pop_visited(arcs_of(self.digraph), self.digraph.ord() as int, s, k, old(self).visited@, old(self).sv());
                assert(self.inv_k(s, roots_after_pop(k, old(self).stack@.len() as int)));
            }
            assert forall|s: Set<int>, path: Seq<int>| #[trigger] old(self).inv_p(s, path) implies self.inv_p(s, path) by {
                lemma_pred_discard_path(self.digraph, old(self).stack@, old(self).visited@, self.stack@, s, path);
            }
        }
    @loop 1
    invariant
        it1.iter.obeys_prophetic_iter_laws(),
        it1.iter.decrease() is Some,
        self.digraph == old(self).digraph,
        old(self).wf(),
        self.wf(),
        old(self).stack@.len() > 0,
        step == old(self).stack@.last(),
        v == step.1,
        !old(self).visited@[v as int],
        self.visited@ == old(self).visited@.update(v as int, true),
        self.stack@.len() >= old(self).stack@.len() - 1,
        forall|i: int| 0 <= i < old(self).stack@.len() - 1 ==> #[trigger] self.stack@[i] == old(self).stack@[i],
        forall|i: int| 0 <= i < it1.seq().len() ==> self.digraph.has(v as int, #[trigger] it1.seq()[i] as int),
        forall|j: int| old(self).stack@.len() - 1 <= j < self.stack@.len() ==> (#[trigger] self.stack@[j]).0 == Some(v) && self.digraph.has(v as int, self.stack@[j].1 as int) && !self.visited@[self.stack@[j].1 as int],
        forall|y: usize| #[trigger] self.digraph.has(v as int, y as int) && !self.visited@[y as int] ==> on_stack_from(self.sv(), old(self).stack@.len() - 1, y as int) || pending(it1.seq(), it1.index(), y),
    @loop_start 1
        let ghost sv_prev = self.sv();
    @loop_end 1
        proof {
            lemma_on_stack_mono(sv_prev, self.sv(), old(self).stack@.len() - 1);
            if !self.visited@[x as int] {
                assert(self.sv()[self.stack@.len() - 1] == x as int);
            }
        }
    @fn_end
        proof {
            let ghost n0 = old(self).stack@.len() - 1;
            let ghost has = arcs_of(self.digraph);
            let ghost ord = self.digraph.ord() as int;
            let ghost pushed = self.sv().skip(n0);
            assert(old(self).sv().last() == v as int);
            assert(self.sv() =~= old(self).sv().drop_last() + pushed);
            assert forall|y: int| #[trigger] self.digraph.has(v as int, y) && !self.visited@[y] implies on_stack_from(self.sv(), n0, y) by {
                let yu = y as usize;
                assert(self.digraph.has(v as int, yu as int));
            }
            assert(pred_yield_at(old(self).digraph, old(self).stack@, old(self).visited@, self.stack@, self.visited@, step, n0));
            assert forall|y: int| #[trigger] has(v as int, y) && !self.visited@[y] implies pushed.contains(y) by {
                assert(self.digraph.has(v as int, y));
                assert(on_stack_from(self.sv(), n0, y));
                let i = choose|i: int| n0 <= i < self.sv().len() && #[trigger] self.sv()[i] == y;
                assert(pushed[i - n0] == y);
            }
            assert forall|j: int| 0 <= j < pushed.len() implies has(v as int, #[trigger] pushed[j]) && !self.visited@[pushed[j]] by {
                assert(pushed[j] == self.stack@[n0 + j].1 as int);
            }
            assert forall|s: Set<int>| #[trigger] old(self).inv(s) implies
                self.inv(s)
                && reachable(has, s, v as int)
                && preorder_step(has, ord, s, old(self).visited@, v as int)
                && pred_step(has, ord, s, old(self).visited@, step.0, v as int) by {
                let k = choose|k: int| pred_inv_k(old(self).digraph, old(self).stack@, old(self).visited@, s, k);
                lemma_core_push_step(has, ord, s, k, old(self).visited@, old(self).sv(), pushed);
                lemma_core_top_preorder(has, ord, s, k, old(self).visited@, old(self).sv());
                assert(old(self).stack@[n0] == step);
                assert(self.inv_k(s, roots_after_pop(k, old(self).stack@.len() as int)));
            }
            assert forall|s: Set<int>, path: Seq<int>| #[trigger] old(self).inv_p(s, path) implies
                self.inv_p(s, path_after(path, opt_int(step.0), v as int))
                && (step.0 is Some ==> deepest_step(has, ord, old(self).visited@, path, step.0->0 as int, v as int)) by {
                lemma_pred_yield_path(self.digraph, old(self).stack@, old(self).visited@, self.stack@, self.visited@, step, s, path);
            }
        }
    @*/

    /*@fn impl=DfsPred name=predecessors file=src/algo/dfs_pred.rs subst=D=>Dg drop=D dropwhere=D
    requires
        old(self).wf(),
    ensures
        final(self).wf(),
        final(self).digraph == old(self).digraph,
        r.pred@.len() == old(self).digraph.ord(),
        // the iteration was run to its end: no unvisited vertex is left on the stack
        forall|i: int| 0 <= i < final(self).stack@.len() ==> final(self).visited@[(#[trigger] final(self).stack@[i]).1 as int],
        // C06: r is the forest of the yields: every vertex yielded exactly once, pred = reported predecessor (an earlier
        // visited in-neighbour), None for vertices that were not yielded
        exists|ys: Seq<(Option<usize>, usize)>| pred_forest(arcs_of(old(self).digraph), old(self).digraph.ord() as int, old(self).visited@, final(self).visited@, r.pred@, ys),
        // C06: the trees are rooted at sources
        forall|s: Set<int>, v: int| #![trigger old(self).inv(s), r.pred@[v]] old(self).inv(s) && 0 <= v < old(self).digraph.ord() && !old(self).visited@[v] && final(self).visited@[v] && r.pred@[v] is None ==> s.contains(v),
        // C06: exactly the vertices reachable from a source have been yielded (visited)
        forall|s: Set<int>| #[trigger] old(self).inv(s) ==> final(self).inv(s) && visited_is_reachable(arcs_of(old(self).digraph), old(self).digraph.ord() as int, s, final(self).visited@),
    @before `for (u, v) in self`
        let ghost mut prev = *self;
        let ghost mut ys: Seq<(Option<usize>, usize)> = Seq::empty();
        proof {
            lemma_pred_forest_init(arcs_of(self.digraph), self.digraph.ord() as int, self.visited@);
        }
    @loop 1
    invariant_except_break
        prev == *self,
    invariant
        self.wf(),
        self.digraph == old(self).digraph,
        pred_forest(arcs_of(self.digraph), self.digraph.ord() as int, old(self).visited@, self.visited@, pred.pred@, ys),
        forall|s: Set<int>, v: int| #![trigger old(self).inv(s), pred.pred@[v]] old(self).inv(s) && 0 <= v < self.digraph.ord() && !old(self).visited@[v] && self.visited@[v] && pred.pred@[v] is None ==> s.contains(v),
        forall|s: Set<int>| #[trigger] old(self).inv(s) ==> self.inv(s),
    ensures
        forall|i: int| 0 <= i < self.stack@.len() ==> self.visited@[(#[trigger] self.stack@[i]).1 as int],
    decreases
        count_false(self.visited@),
    @loop_start 1
        proof {
            lemma_count_false_update(prev.visited@, v as int);
            lemma_pred_forest_step(arcs_of(self.digraph), self.digraph.ord() as int, old(self).visited@, prev.visited@, pred.pred@, ys, u, v);
        }
    @loop_end 1
        proof {
            ys = ys.push((u, v));
            prev = *self;
        }
    @fn_end
        proof {
            assert forall|s: Set<int>| #[trigger] old(self).inv(s) implies visited_is_reachable(arcs_of(self.digraph), self.digraph.ord() as int, s, self.visited@) by {
                self.lemma_exhausted(s);
            }
        }
    @*/
}

} // verus!
fn main() {}
