//@unit props=C11,C12,C20,C13 tier=quick rlimit=30
//@file src/repr/adjacency_matrix/mod.rs
use vstd::prelude::*;
use vstd::slice::SliceIndexSpec;
use vstd::std_specs::iter::IteratorSpec;
verus! {
global size_of usize == 8;
//@include prelude/std_contracts.rs
//@include prelude/matrix_std.rs

//@import units/inc/matrix_core.inc.rs
//@import units/inc/matrix_iter.inc.rs

//@include units/inc/matrix_ops.inc.rs
} // verus!
fn main() {}
