//@unit props=C11,C12,C20,C13 tier=quick rlimit=30
//@file src/repr/adjacency_matrix/mod.rs
use vstd::prelude::*;
use vstd::set_lib::*;
use vstd::slice::SliceIndexSpec;
use vstd::std_specs::iter::IteratorSpec;
use std::collections::BTreeSet;
verus! {
global size_of usize == 8;
//@include prelude/std_contracts.rs
//@include prelude/matrix_std.rs
// needed by the imported matrix_degrees fragment (E12 wrappers vx_count / vx_sum, usize::count_ones)
//@include prelude/iter_wrappers.rs
//@include prelude/blanket_std.rs

//@import units/inc/matrix_core.inc.rs
//@import units/inc/matrix_iter.inc.rs
// `AdjacencyMatrix::size` is PROVED in unit matrix_degrees (`r == set_cells(*self).len()`); that fragment needs matrix_queries
//@import units/inc/matrix_queries.inc.rs
//@import units/inc/matrix_degrees.inc.rs

//@include units/inc/matrix_ops.inc.rs
} // verus!
fn main() {}
