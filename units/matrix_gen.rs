//@unit props=C14 tier=quick rlimit=30
//@file src/repr/adjacency_matrix/mod.rs
use vstd::prelude::*;
use vstd::slice::SliceIndexSpec;
verus! {
global size_of usize == 8;
//@include prelude/std_contracts.rs

//@import units/inc/matrix_core.inc.rs

//@include units/inc/matrix_gen.inc.rs
} // verus!
fn main() {}
