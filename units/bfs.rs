//@unit props=C04,C13 tier=quick rlimit=30
//@file src/algo/bfs.rs
use vstd::prelude::*;
use vstd::set_lib::*;
use vstd::slice::SliceIndexSpec;
use std::collections::VecDeque;
use vstd::std_specs::iter::IteratorSpec;
verus! {
global size_of usize == 8;
//@include prelude/std_contracts.rs
//@include prelude/dg.rs
//@include speclib/graph.rs
//@include speclib/bfs_lemmas.rs

// ---------------------------------------------------------------------------------------------
// concrete state -> abstract state (speclib/bfs_lemmas.rs)
// ---------------------------------------------------------------------------------------------
spec fn dg_has(dg: &Dg) -> ArcRel { |u: int, v: int| dg.has(u, v) }

/// queue vertices / levels of a BfsDist queue
spec fn qv_of(q: Seq<(usize, usize)>) -> Seq<int> { Seq::new(q.len(), |i: int| q[i].0 as int) }
spec fn lv_of(q: Seq<(usize, usize)>) -> Seq<int> { Seq::new(q.len(), |i: int| q[i].1 as int) }
/// queue vertices of a Bfs queue
spec fn qv_of1(q: Seq<usize>) -> Seq<int> { Seq::new(q.len(), |i: int| q[i] as int) }

/// entries appended by one step
spec fn new_entries(add: Seq<int>, w: usize) -> Seq<(usize, usize)> { Seq::new(add.len(), |k: int| (add[k] as usize, w)) }
spec fn new_entries1(add: Seq<int>) -> Seq<usize> { Seq::new(add.len(), |k: int| add[k] as usize) }

/// v occurs among the first k items of s
spec fn seen_upto(s: Seq<usize>, k: int, v: int) -> bool { exists|j: int| 0 <= j < k && j < s.len() && #[trigger] s[j] == v }

/// x occurs in s at position >= k
spec fn rest_has(s: Seq<usize>, k: int, x: usize) -> bool { exists|j: int| k <= j < s.len() && #[trigger] s[j] == x }

/// the step relation without levels (what Bfs::next exposes)
spec fn vstep(has: ArcRel, qv: Seq<int>, vis: Seq<bool>, qv2: Seq<int>, vis2: Seq<bool>, add: Seq<int>) -> bool {
    &&& qv.len() > 0
    &&& vis2.len() == vis.len()
    &&& add.no_duplicates()
    &&& forall|k: int| 0 <= k < add.len() ==> 0 <= #[trigger] add[k] < vis.len() && !vis[add[k]] && has(qv[0], add[k])
    &&& forall|v: int| #[trigger] has(qv[0], v) && 0 <= v < vis.len() && !vis[v] ==> add.contains(v)
    &&& forall|v: int| 0 <= v < vis.len() ==> #[trigger] vis2[v] == (vis[v] || add.contains(v))
    &&& qv2 == qv.skip(1) + add
}

/// has(a, b) ==> a, b in range, from digraph validity
proof fn lemma_has_range(dg: &Dg)
    requires dg.wf(),
    ensures forall|a: int, b: int| #[trigger] dg_has(dg)(a, b) ==> 0 <= b < dg.ord() && 0 <= a < dg.ord(),
{
    assert forall|a: int, b: int| #[trigger] dg_has(dg)(a, b) implies 0 <= b < dg.ord() && 0 <= a < dg.ord() by {
        assert(dg.has(a, b));
    }
}

// ---- the neighbour loop of `next` (shared by Bfs and BfsDist): state of visited / newly added vertices -------------
/// after k of the out-neighbours nb of u have been processed
#[verifier::opaque]
spec fn loop_inv(dg: &Dg, u: usize, vis0: Seq<bool>, vis: Seq<bool>, add: Seq<int>, nb: Seq<usize>, k: int) -> bool {
    &&& dg.wf() && vis0.len() == dg.ord() && vis.len() == vis0.len() && u < dg.ord() && 0 <= k <= nb.len()
    &&& add.no_duplicates()
    &&& forall|i: int| 0 <= i < nb.len() ==> dg.has(u as int, #[trigger] nb[i] as int)
    &&& forall|j: int| 0 <= j < add.len() ==> 0 <= #[trigger] add[j] < vis0.len() && !vis0[add[j]] && dg.has(u as int, add[j])
    &&& forall|x: usize| #[trigger] dg.has(u as int, x as int) ==> vis0[x as int] || add.contains(x as int) || rest_has(nb, k, x)
    &&& forall|v: int| 0 <= v < vis.len() ==> #[trigger] vis[v] == (vis0[v] || add.contains(v))
    &&& ct(vis) == ct(vis0) + add.len()
}

/// all out-neighbours processed
#[verifier::opaque]
spec fn step_done(dg: &Dg, u: usize, vis0: Seq<bool>, vis: Seq<bool>, add: Seq<int>) -> bool {
    &&& dg.wf() && vis0.len() == dg.ord() && vis.len() == vis0.len() && u < dg.ord()
    &&& add.no_duplicates()
    &&& forall|j: int| 0 <= j < add.len() ==> 0 <= #[trigger] add[j] < vis0.len() && !vis0[add[j]] && dg.has(u as int, add[j])
    &&& forall|x: usize| #[trigger] dg.has(u as int, x as int) ==> vis0[x as int] || add.contains(x as int)
    &&& forall|v: int| 0 <= v < vis.len() ==> #[trigger] vis[v] == (vis0[v] || add.contains(v))
    &&& ct(vis) == ct(vis0) + add.len()
}

proof fn lemma_loop_init(dg: &Dg, u: usize, vis0: Seq<bool>)
    requires dg.wf(), vis0.len() == dg.ord(), u < dg.ord(),
    ensures
        forall|nb: Seq<usize>| (forall|x: usize| dg.has(u as int, x as int) ==> nb.contains(x))
            && (forall|i: int| 0 <= i < nb.len() ==> dg.has(u as int, #[trigger] nb[i] as int))
            ==> #[trigger] loop_inv(dg, u, vis0, vis0, Seq::<int>::empty(), nb, 0),
        (forall|x: usize| !dg.has(u as int, x as int)) ==> step_done(dg, u, vis0, vis0, Seq::<int>::empty()),
{
    reveal(loop_inv);
    reveal(step_done);
    let e = Seq::<int>::empty();
    assert forall|nb: Seq<usize>| (forall|x: usize| dg.has(u as int, x as int) ==> nb.contains(x))
            && (forall|i: int| 0 <= i < nb.len() ==> dg.has(u as int, #[trigger] nb[i] as int))
        implies #[trigger] loop_inv(dg, u, vis0, vis0, e, nb, 0) by {
        assert forall|x: usize| #[trigger] dg.has(u as int, x as int) implies rest_has(nb, 0, x) by {
            assert(nb.contains(x));
            let j = choose|j: int| 0 <= j < nb.len() && nb[j] == x;
            assert(nb[j] == x);
        }
    }
}

proof fn lemma_loop_step(dg: &Dg, u: usize, vis0: Seq<bool>, vis: Seq<bool>, add: Seq<int>, nb: Seq<usize>, k: int, vis2: Seq<bool>, add2: Seq<int>)
    requires
        loop_inv(dg, u, vis0, vis, add, nb, k),
        0 <= k < nb.len(),
        nb[k] < vis.len(),
        if vis[nb[k] as int] { vis2 == vis && add2 == add } else { vis2 == vis.update(nb[k] as int, true) && add2 == add.push(nb[k] as int) },
    ensures
        loop_inv(dg, u, vis0, vis2, add2, nb, k + 1),
        k + 1 == nb.len() ==> step_done(dg, u, vis0, vis2, add2),
{
    reveal(loop_inv);
    reveal(step_done);
    let v = nb[k] as int;
    assert(dg.has(u as int, nb[k] as int));
    if !vis[v] {
        assert(!add.contains(v));
        assert(!vis0[v]);
        lemma_ct_set(vis, v);
        assert forall|x: int| add2.contains(x) <==> add.contains(x) || x == v by {
            if add.contains(x) {
                let j = choose|j: int| 0 <= j < add.len() && add[j] == x;
                assert(add2[j] == x);
            }
            assert(add2[add.len() as int] == v);
        }
        assert forall|j: int| 0 <= j < add2.len() implies 0 <= #[trigger] add2[j] < vis0.len() && !vis0[add2[j]] && dg.has(u as int, add2[j]) by {
            if j < add.len() { assert(add2[j] == add[j]); }
        }
    }
    assert forall|x: usize| #[trigger] dg.has(u as int, x as int) implies vis0[x as int] || add2.contains(x as int) || rest_has(nb, k + 1, x) by {
        if rest_has(nb, k, x) && !(vis0[x as int] || add.contains(x as int)) {
            let j = choose|j: int| k <= j < nb.len() && #[trigger] nb[j] == x;
            if j > k { assert(rest_has(nb, k + 1, x)); }
        }
    }
    if k + 1 == nb.len() {
        assert forall|x: usize| #[trigger] dg.has(u as int, x as int) implies vis0[x as int] || add2.contains(x as int) by {
            assert(!rest_has(nb, k + 1, x));
        }
    }
}

/// step_done in terms of the abstract step relation
proof fn lemma_step_done_vstep(dg: &Dg, u: usize, vis0: Seq<bool>, vis: Seq<bool>, add: Seq<int>, qv: Seq<int>, qv2: Seq<int>)
    requires
        step_done(dg, u, vis0, vis, add),
        qv.len() > 0,
        qv[0] == u,
        qv2 == qv.skip(1) + add,
    ensures
        vstep(dg_has(dg), qv, vis0, qv2, vis, add),
        ct(vis) == ct(vis0) + add.len(),
        forall|j: int| 0 <= j < add.len() ==> 0 <= #[trigger] add[j] < vis0.len(),
{
    reveal(step_done);
    let has = dg_has(dg);
    assert forall|x: int| #[trigger] has(qv[0], x) && 0 <= x < vis0.len() && !vis0[x] implies add.contains(x) by {
        let xu = x as usize;
        assert(dg.has(u as int, xu as int));
    }
}

// ---------------------------------------------------------------------------------------------
// Bfs
// ---------------------------------------------------------------------------------------------
spec fn wf1(dg: &Dg, q: Seq<usize>, vis: Seq<bool>) -> bool {
    &&& dg.wf()
    &&& vis.len() == dg.ord()
    &&& forall|i: int| 0 <= i < q.len() ==> #[trigger] q[i] < vis.len()
}

spec fn inv1(dg: &Dg, q: Seq<usize>, vis: Seq<bool>, srcs: Set<int>) -> bool {
    exists|lv: Seq<int>, d: spec_fn(int) -> int| binv(dg_has(dg), qv_of1(q), lv, vis, srcs, d)
}

/// what one call of Bfs::next (returning Some(q0[0])) means for every source set the invariant holds for
spec fn next_sem1(dg: &Dg, q0: Seq<usize>, vis0: Seq<bool>, q: Seq<usize>, vis: Seq<bool>, srcs: Set<int>) -> bool {
    &&& inv1(dg, q, vis, srcs)
    &&& reachable(dg_has(dg), srcs, q0[0] as int)
    &&& is_min_walk_weight(dg_has(dg), unit_w(), srcs, q0[0] as int, hop(dg_has(dg), srcs, q0[0] as int))
    &&& !is_done(qv_of1(q0), vis0, q0[0] as int)
    &&& forall|v: int| is_done(qv_of1(q), vis, v) <==> is_done(qv_of1(q0), vis0, v) || v == q0[0]
    &&& forall|i: int| 0 <= i < q.len() ==> hop(dg_has(dg), srcs, q0[0] as int) <= hop(dg_has(dg), srcs, #[trigger] q[i] as int)
}

proof fn lemma_next_end1_sem(dg: &Dg, q0: Seq<usize>, vis0: Seq<bool>, q: Seq<usize>, vis: Seq<bool>, add: Seq<int>, srcs: Set<int>)
    requires
        wf1(dg, q0, vis0),
        vstep(dg_has(dg), qv_of1(q0), vis0, qv_of1(q), vis, add),
        inv1(dg, q0, vis0, srcs),
    ensures
        next_sem1(dg, q0, vis0, q, vis, srcs),
{
    let has = dg_has(dg);
    let qv = qv_of1(q0);
    let qv2 = qv_of1(q);
    lemma_has_range(dg);
    let (lv, d) = choose|lv: Seq<int>, d: spec_fn(int) -> int| binv(has, qv, lv, vis0, srcs, d);
    let lv2 = lv.skip(1) + Seq::new(add.len(), |k: int| lv[0] + 1);
    assert(bstep(has, qv, lv, vis0, qv2, lv2, vis, add));
    lemma_next_post(has, qv, lv, vis0, qv2, lv2, vis, add, srcs);
    let d2 = choose|d2: spec_fn(int) -> int| binv(has, qv2, lv2, vis, srcs, d2);
    assert(binv(has, qv2, lv2, vis, srcs, d2));
    lemma_hop(has, srcs, qv[0], lv[0]);
    lemma_witness_reachable(has, unit_w(), srcs, qv[0], lv[0]);
    assert forall|i: int| 0 <= i < q.len() implies hop(has, srcs, q0[0] as int) <= hop(has, srcs, #[trigger] q[i] as int) by {
        lemma_queue_exact(has, qv2, lv2, vis, srcs, d2, i);
        lemma_hop(has, srcs, qv2[i], lv2[i]);
        assert(lv[0] <= lv2[i]);
    }
}

proof fn lemma_next_end1(dg: &Dg, q0: Seq<usize>, vis0: Seq<bool>, q: Seq<usize>, vis: Seq<bool>, add: Seq<int>)
    requires
        wf1(dg, q0, vis0),
        q0.len() > 0,
        step_done(dg, q0[0], vis0, vis, add),
        q == q0.skip(1) + new_entries1(add),
    ensures
        wf1(dg, q, vis),
        vstep(dg_has(dg), qv_of1(q0), vis0, qv_of1(q), vis, add),
        vis.len() - ct(vis) + q.len() == vis0.len() - ct(vis0) + q0.len() - 1,
        forall|srcs: Set<int>| #[trigger] inv1(dg, q0, vis0, srcs) ==> next_sem1(dg, q0, vis0, q, vis, srcs),
{
    lemma_step_done_vstep(dg, q0[0], vis0, vis, add, qv_of1(q0), qv_of1(q0).skip(1) + add);
    assert(qv_of1(q) =~= qv_of1(q0).skip(1) + add);
    assert forall|i: int| 0 <= i < q.len() implies #[trigger] q[i] < vis.len() by {
        if i < q0.len() - 1 {
            assert(q[i] == q0[i + 1]);
        } else {
            assert(q[i] == add[i - (q0.len() - 1)] as usize);
        }
    }
    assert forall|srcs: Set<int>| #[trigger] inv1(dg, q0, vis0, srcs) implies next_sem1(dg, q0, vis0, q, vis, srcs) by {
        lemma_next_end1_sem(dg, q0, vis0, q, vis, add, srcs);
    }
}

proof fn lemma_exhausted1(dg: &Dg, q: Seq<usize>, vis: Seq<bool>)
    requires q.len() == 0,
    ensures forall|srcs: Set<int>| #[trigger] inv1(dg, q, vis, srcs) ==> (forall|v: int| is_done(qv_of1(q), vis, v) <==> reachable(dg_has(dg), srcs, v)),
{
    assert forall|srcs: Set<int>| #[trigger] inv1(dg, q, vis, srcs) implies (forall|v: int| is_done(qv_of1(q), vis, v) <==> reachable(dg_has(dg), srcs, v)) by {
        let (lv, d) = choose|lv: Seq<int>, d: spec_fn(int) -> int| binv(dg_has(dg), qv_of1(q), lv, vis, srcs, d);
        lemma_exhausted_ex(dg_has(dg), qv_of1(q), lv, vis, srcs);
    }
}

/*@struct name=Bfs subst=D=>Dg drop=D @*/

impl<'a> Bfs<'a> {
    spec fn has(&self) -> ArcRel { dg_has(self.digraph) }
    spec fn qv(&self) -> Seq<int> { qv_of1(self.queue@) }

    /// memory-safety part of the invariant
    spec fn wf(&self) -> bool { wf1(self.digraph, self.queue@, self.visited@) }

    /// BFS invariant relative to the source set (levels and the level function are existential: no ghost state)
    spec fn inv(&self, srcs: Set<int>) -> bool { inv1(self.digraph, self.queue@, self.visited@, srcs) }

    /// already yielded
    spec fn done(&self, v: int) -> bool { is_done(self.qv(), self.visited@, v) }

    /// state built by `new` from distinct in-range sources
    spec fn fresh(&self) -> bool {
        &&& self.wf()
        &&& self.qv().no_duplicates()
        &&& forall|v: int| #[trigger] is_vis(self.visited@, v) <==> self.qv().contains(v)
    }

    spec fn srcs(&self) -> Set<int> { self.qv().to_set() }

    /// #vertices not yet yielded (termination measure of any driver loop)
    spec fn fuel(&self) -> int { self.visited@.len() - ct(self.visited@) + self.queue@.len() }

    proof fn lemma_fresh_inv(&self)
        requires self.fresh(),
        ensures self.inv(self.srcs()), forall|v: int| !self.done(v),
    {
        let lv = Seq::new(self.qv().len(), |i: int| 0int);
        lemma_fresh(self.has(), self.qv(), lv, self.visited@);
        assert(binv(self.has(), self.qv(), lv, self.visited@, self.srcs(), |v: int| 0int));
    }

    /*@fn impl=Bfs name=new subst=D=>Dg drop=D dropwhere=D
    requires
        digraph.wf(),
        sources.obeys_prophetic_iter_laws(),
        sources.decrease() is Some,
    ensures
        r.digraph == digraph,
        r.wf(),
        sources.remaining().no_duplicates() ==> r.fresh(),
        r.queue@ == sources.remaining(),
        forall|i: int| 0 <= i < sources.remaining().len() ==> #[trigger] sources.remaining()[i] < digraph.ord(),
    @loop 1
    invariant
        it1.iter.obeys_prophetic_iter_laws(),
        it1.iter.decrease() is Some,
        it1.seq() == sources.remaining(),
        order == digraph.ord(),
        visited@.len() == order,
        queue@ == it1.seq().take(it1.index()),
        forall|i: int| 0 <= i < it1.index() ==> #[trigger] it1.seq()[i] < order,
        forall|v: int| 0 <= v < order ==> #[trigger] visited@[v] == seen_upto(it1.seq(), it1.index(), v),
    @loop_end 1
        proof {
            let k = it1.index();
            assert(u == it1.seq()[k]);
            assert(queue@ =~= it1.seq().take(k + 1));
            assert forall|v: int| 0 <= v < order implies #[trigger] visited@[v] == seen_upto(it1.seq(), k + 1, v) by {
                if seen_upto(it1.seq(), k, v) {
                    let j = choose|j: int| 0 <= j < k && j < it1.seq().len() && #[trigger] it1.seq()[j] == v;
                    assert(it1.seq()[j] == v);
                }
                if v == u { assert(it1.seq()[k] == v); }
                if seen_upto(it1.seq(), k + 1, v) && v != u {
                    let j = choose|j: int| 0 <= j < k + 1 && j < it1.seq().len() && #[trigger] it1.seq()[j] == v;
                    assert(j < k);
                }
            }
        }
    @fn_end
        proof {
            let s = sources.remaining();
            assert(queue@ =~= s);
            if s.no_duplicates() { assert(qv_of1(queue@).no_duplicates()); }
            assert forall|v: int| #[trigger] is_vis(visited@, v) <==> qv_of1(queue@).contains(v) by {
                if is_vis(visited@, v) {
                    let j = choose|j: int| 0 <= j < s.len() && j < s.len() && #[trigger] s[j] == v;
                    assert(qv_of1(queue@)[j] == v);
                }
                if qv_of1(queue@).contains(v) {
                    let j = choose|j: int| 0 <= j < qv_of1(queue@).len() && qv_of1(queue@)[j] == v;
                    assert(s[j] == v);
                    assert(seen_upto(s, s.len() as int, v));
                }
            }
        }
    @*/

    /*@fn impl=Bfs trait=Iterator name=next subst=Self::Item=>usize
    requires
        old(self).wf(),
    ensures
        final(self).wf(),
        final(self).digraph == old(self).digraph,
        r is None ==> old(self).queue@.len() == 0 && final(self).queue@ == old(self).queue@ && final(self).visited@ == old(self).visited@,
        r is None ==> forall|srcs: Set<int>| #[trigger] old(self).inv(srcs) ==> (forall|v: int| old(self).done(v) <==> reachable(old(self).has(), srcs, v)),
        r matches Some(u) ==> old(self).queue@.len() > 0 && u == old(self).queue@[0] && u < old(self).digraph.ord() && final(self).fuel() == old(self).fuel() - 1 && final(self).fuel() >= 0,
        r is Some ==> exists|add: Seq<int>| vstep(old(self).has(), old(self).qv(), old(self).visited@, final(self).qv(), final(self).visited@, add),
        r is Some ==> forall|srcs: Set<int>| #[trigger] old(self).inv(srcs) ==> next_sem1(old(self).digraph, old(self).queue@, old(self).visited@, final(self).queue@, final(self).visited@, srcs),
    @before `let u = self.queue.pop`
        proof {
            if self.queue@.len() == 0 { lemma_exhausted1(self.digraph, self.queue@, self.visited@); }
        }
        let ghost mut add: Seq<int> = Seq::empty();
    @after `let u = self.queue.pop`
        proof {
            assert(self.queue@ =~= old(self).queue@.skip(1) + new_entries1(add));
            lemma_loop_init(self.digraph, u, self.visited@);
        }
    @loop 1
    invariant
        self.digraph == old(self).digraph,
        self.visited@.len() == self.digraph.ord(),
        old(self).queue@.len() > 0,
        u == old(self).queue@[0],
        it1.iter.obeys_prophetic_iter_laws(),
        it1.iter.decrease() is Some,
        loop_inv(self.digraph, u, old(self).visited@, self.visited@, add, it1.seq(), it1.index()),
        it1.index() == it1.seq().len() ==> step_done(self.digraph, u, old(self).visited@, self.visited@, add),
        self.queue@ == old(self).queue@.skip(1) + new_entries1(add),
    @loop_start 1
        let ghost vis_pre = self.visited@;
        let ghost add_pre = add;
        proof {
            assert(v == it1.seq()[it1.index()]);
            assert(v < self.visited@.len()) by { reveal(loop_inv); }
        }
    @after `self.queue.push`
        proof {
            add = add_pre.push(v as int);
            assert(self.queue@ =~= old(self).queue@.skip(1) + new_entries1(add));
        }
    @loop_end 1
        proof {
            lemma_loop_step(self.digraph, u, old(self).visited@, vis_pre, add_pre, it1.seq(), it1.index(), self.visited@, add);
        }
    @fn_end
        proof {
            lemma_next_end1(self.digraph, old(self).queue@, old(self).visited@, self.queue@, self.visited@, add);
            lemma_ct_bounds(self.visited@);
            assert(vstep(old(self).has(), old(self).qv(), old(self).visited@, self.qv(), self.visited@, add));
        }
    @*/
}

// ---------------------------------------------------------------------------------------------
// BfsDist
// ---------------------------------------------------------------------------------------------
//@file src/algo/bfs_dist.rs
/*@type name=Step @*/

/// memory safety + no overflow of `w + 1`: level + queue length <= #visited (<= order <= usize::MAX)
spec fn wf2(dg: &Dg, q: Seq<(usize, usize)>, vis: Seq<bool>) -> bool {
    &&& dg.wf()
    &&& vis.len() == dg.ord()
    &&& forall|i: int| 0 <= i < q.len() ==> (#[trigger] q[i]).0 < vis.len() && q[i].1 + q.len() <= ct(vis)
}

spec fn inv2(dg: &Dg, q: Seq<(usize, usize)>, vis: Seq<bool>, srcs: Set<int>) -> bool {
    exists|d: spec_fn(int) -> int| binv(dg_has(dg), qv_of(q), lv_of(q), vis, srcs, d)
}

/// what one call of BfsDist::next (returning Some(q0[0])) means for every source set the invariant holds for
spec fn next_sem2(dg: &Dg, q0: Seq<(usize, usize)>, vis0: Seq<bool>, q: Seq<(usize, usize)>, vis: Seq<bool>, srcs: Set<int>) -> bool {
    &&& inv2(dg, q, vis, srcs)
    &&& is_min_walk_weight(dg_has(dg), unit_w(), srcs, q0[0].0 as int, q0[0].1 as int)
    &&& !is_done(qv_of(q0), vis0, q0[0].0 as int)
    &&& forall|v: int| is_done(qv_of(q), vis, v) <==> is_done(qv_of(q0), vis0, v) || v == q0[0].0
    &&& forall|i: int| 0 <= i < q.len() ==> q0[0].1 <= (#[trigger] q[i]).1
}

proof fn lemma_bridge_dist(q0: Seq<(usize, usize)>, q: Seq<(usize, usize)>, add: Seq<int>, w_next: usize)
    requires
        q0.len() > 0,
        w_next == q0[0].1 + 1,
        q == q0.skip(1) + new_entries(add, w_next),
        forall|k: int| 0 <= k < add.len() ==> 0 <= #[trigger] add[k] <= usize::MAX,
    ensures
        qv_of(q) == qv_of(q0).skip(1) + add,
        lv_of(q) == lv_of(q0).skip(1) + Seq::new(add.len(), |k: int| lv_of(q0)[0] + 1),
{
    assert(qv_of(q) =~= qv_of(q0).skip(1) + add);
    assert(lv_of(q) =~= lv_of(q0).skip(1) + Seq::new(add.len(), |k: int| lv_of(q0)[0] + 1));
}

proof fn lemma_next_end2_sem(dg: &Dg, q0: Seq<(usize, usize)>, vis0: Seq<bool>, q: Seq<(usize, usize)>, vis: Seq<bool>, add: Seq<int>, srcs: Set<int>)
    requires
        wf2(dg, q0, vis0),
        bstep(dg_has(dg), qv_of(q0), lv_of(q0), vis0, qv_of(q), lv_of(q), vis, add),
        inv2(dg, q0, vis0, srcs),
    ensures
        next_sem2(dg, q0, vis0, q, vis, srcs),
{
    let has = dg_has(dg);
    lemma_has_range(dg);
    lemma_next_post(has, qv_of(q0), lv_of(q0), vis0, qv_of(q), lv_of(q), vis, add, srcs);
    assert forall|i: int| 0 <= i < q.len() implies q0[0].1 <= (#[trigger] q[i]).1 by {
        assert(lv_of(q0)[0] <= lv_of(q)[i]);
    }
}

proof fn lemma_next_end2(dg: &Dg, q0: Seq<(usize, usize)>, vis0: Seq<bool>, q: Seq<(usize, usize)>, vis: Seq<bool>, add: Seq<int>, w_next: usize)
    requires
        wf2(dg, q0, vis0),
        q0.len() > 0,
        w_next == q0[0].1 + 1,
        step_done(dg, q0[0].0, vis0, vis, add),
        q == q0.skip(1) + new_entries(add, w_next),
    ensures
        wf2(dg, q, vis),
        bstep(dg_has(dg), qv_of(q0), lv_of(q0), vis0, qv_of(q), lv_of(q), vis, add),
        vis.len() - ct(vis) + q.len() == vis0.len() - ct(vis0) + q0.len() - 1,
        forall|srcs: Set<int>| #[trigger] inv2(dg, q0, vis0, srcs) ==> next_sem2(dg, q0, vis0, q, vis, srcs),
{
    lemma_step_done_vstep(dg, q0[0].0, vis0, vis, add, qv_of(q0), qv_of(q0).skip(1) + add);
    lemma_bridge_dist(q0, q, add, w_next);
    assert forall|i: int| 0 <= i < q.len() implies (#[trigger] q[i]).0 < vis.len() && q[i].1 + q.len() <= ct(vis) by {
        if i < q0.len() - 1 {
            assert(q[i] == q0[i + 1]);
        } else {
            assert(q[i] == (add[i - (q0.len() - 1)] as usize, w_next));
        }
    }
    assert forall|srcs: Set<int>| #[trigger] inv2(dg, q0, vis0, srcs) implies next_sem2(dg, q0, vis0, q, vis, srcs) by {
        lemma_next_end2_sem(dg, q0, vis0, q, vis, add, srcs);
    }
}

proof fn lemma_exhausted2(dg: &Dg, q: Seq<(usize, usize)>, vis: Seq<bool>)
    requires q.len() == 0,
    ensures forall|srcs: Set<int>| #[trigger] inv2(dg, q, vis, srcs) ==> (forall|v: int| is_done(qv_of(q), vis, v) <==> reachable(dg_has(dg), srcs, v)),
{
    assert forall|srcs: Set<int>| #[trigger] inv2(dg, q, vis, srcs) implies (forall|v: int| is_done(qv_of(q), vis, v) <==> reachable(dg_has(dg), srcs, v)) by {
        lemma_exhausted_ex(dg_has(dg), qv_of(q), lv_of(q), vis, srcs);
    }
}

/*@struct name=BfsDist subst=D=>Dg drop=D @*/

impl<'a> BfsDist<'a> {
    spec fn has(&self) -> ArcRel { dg_has(self.digraph) }
    spec fn qv(&self) -> Seq<int> { qv_of(self.queue@) }
    spec fn lv(&self) -> Seq<int> { lv_of(self.queue@) }

    /// memory-safety / no-overflow part of the invariant
    spec fn wf(&self) -> bool { wf2(self.digraph, self.queue@, self.visited@) }

    /// BFS invariant relative to the source set (the level function is existential: no ghost state)
    spec fn inv(&self, srcs: Set<int>) -> bool { inv2(self.digraph, self.queue@, self.visited@, srcs) }

    /// already yielded
    spec fn done(&self, v: int) -> bool { is_done(self.qv(), self.visited@, v) }

    /// state built by `new` from distinct in-range sources
    spec fn fresh(&self) -> bool {
        &&& self.wf()
        &&& forall|i: int| 0 <= i < self.queue@.len() ==> (#[trigger] self.queue@[i]).1 == 0
        &&& self.qv().no_duplicates()
        &&& forall|v: int| #[trigger] is_vis(self.visited@, v) <==> self.qv().contains(v)
    }

    spec fn srcs(&self) -> Set<int> { self.qv().to_set() }

    /// #vertices not yet yielded (termination measure of the driver loop)
    spec fn fuel(&self) -> int { self.visited@.len() - ct(self.visited@) + self.queue@.len() }

    proof fn lemma_fresh_inv(&self)
        requires self.fresh(),
        ensures self.inv(self.srcs()), forall|v: int| !self.done(v),
    {
        lemma_fresh(self.has(), self.qv(), self.lv(), self.visited@);
        assert(binv(self.has(), self.qv(), self.lv(), self.visited@, self.srcs(), |v: int| 0int));
    }

    /*@fn impl=BfsDist name=new subst=D=>Dg drop=D dropwhere=D
    requires
        digraph.wf(),
        sources.obeys_prophetic_iter_laws(),
        sources.decrease() is Some,
    ensures
        r.digraph == digraph,
        r.visited@.len() == digraph.ord(),
        sources.remaining().no_duplicates() ==> r.fresh(),
        r.queue@.len() == sources.remaining().len(),
        forall|i: int| 0 <= i < sources.remaining().len() ==> #[trigger] r.queue@[i] == (sources.remaining()[i], 0usize),
        forall|i: int| 0 <= i < sources.remaining().len() ==> #[trigger] sources.remaining()[i] < digraph.ord(),
    @after `let mut visited =`
        proof { lemma_ct_false(visited@); }
    @loop 1
    invariant
        it1.iter.obeys_prophetic_iter_laws(),
        it1.iter.decrease() is Some,
        it1.seq() == sources.remaining(),
        order == digraph.ord(),
        visited@.len() == order,
        queue@.len() == it1.index(),
        forall|i: int| 0 <= i < it1.index() ==> #[trigger] queue@[i] == (it1.seq()[i], 0usize),
        forall|i: int| 0 <= i < it1.index() ==> #[trigger] it1.seq()[i] < order,
        forall|v: int| 0 <= v < order ==> #[trigger] visited@[v] == seen_upto(it1.seq(), it1.index(), v),
        it1.seq().no_duplicates() ==> ct(visited@) == it1.index(),
    @loop_start 1
        let ghost vis_pre = visited@;
    @loop_end 1
        proof {
            let k = it1.index();
            assert(u == it1.seq()[k]);
            if it1.seq().no_duplicates() {
                assert(vis_pre[u as int] == seen_upto(it1.seq(), k, u as int));
                if vis_pre[u as int] {
                    let j = choose|j: int| 0 <= j < k && j < it1.seq().len() && #[trigger] it1.seq()[j] == u;
                    assert(it1.seq()[j] == it1.seq()[k]);
                }
                lemma_ct_set(vis_pre, u as int);
            }
            assert forall|v: int| 0 <= v < order implies #[trigger] visited@[v] == seen_upto(it1.seq(), k + 1, v) by {
                if seen_upto(it1.seq(), k, v) {
                    let j = choose|j: int| 0 <= j < k && j < it1.seq().len() && #[trigger] it1.seq()[j] == v;
                    assert(it1.seq()[j] == v);
                }
                if v == u { assert(it1.seq()[k] == v); }
                if seen_upto(it1.seq(), k + 1, v) && v != u {
                    let j = choose|j: int| 0 <= j < k + 1 && j < it1.seq().len() && #[trigger] it1.seq()[j] == v;
                    assert(j < k);
                }
            }
        }
    @fn_end
        proof {
            let s = sources.remaining();
            assert forall|i: int, j: int| s.no_duplicates() && 0 <= i < j < qv_of(queue@).len() implies qv_of(queue@)[i] != qv_of(queue@)[j] by {
                assert(queue@[i] == (s[i], 0usize));
                assert(queue@[j] == (s[j], 0usize));
            }
            assert forall|v: int| #[trigger] is_vis(visited@, v) <==> qv_of(queue@).contains(v) by {
                if is_vis(visited@, v) {
                    let j = choose|j: int| 0 <= j < s.len() && j < s.len() && #[trigger] s[j] == v;
                    assert(queue@[j] == (s[j], 0usize));
                    assert(qv_of(queue@)[j] == v);
                }
                if qv_of(queue@).contains(v) {
                    let j = choose|j: int| 0 <= j < qv_of(queue@).len() && qv_of(queue@)[j] == v;
                    assert(queue@[j] == (s[j], 0usize));
                    assert(s[j] == v);
                    assert(seen_upto(s, s.len() as int, v));
                }
            }
        }
    @*/

    /*@fn impl=BfsDist trait=Iterator name=next subst=Self::Item=>Step
    requires
        old(self).wf(),
    ensures
        final(self).wf(),
        final(self).digraph == old(self).digraph,
        r is None ==> old(self).queue@.len() == 0 && final(self).queue@ == old(self).queue@ && final(self).visited@ == old(self).visited@,
        r is None ==> forall|srcs: Set<int>| #[trigger] old(self).inv(srcs) ==> (forall|v: int| old(self).done(v) <==> reachable(old(self).has(), srcs, v)),
        r matches Some(x) ==> old(self).queue@.len() > 0 && x == old(self).queue@[0] && x.0 < old(self).digraph.ord() && x.1 < old(self).digraph.ord() && final(self).fuel() == old(self).fuel() - 1 && final(self).fuel() >= 0,
        r is Some ==> exists|add: Seq<int>| bstep(old(self).has(), old(self).qv(), old(self).lv(), old(self).visited@, final(self).qv(), final(self).lv(), final(self).visited@, add),
        r is Some ==> forall|srcs: Set<int>| #[trigger] old(self).inv(srcs) ==> next_sem2(old(self).digraph, old(self).queue@, old(self).visited@, final(self).queue@, final(self).visited@, srcs),
    @before `let (u, w) = self.queue.pop`
        proof {
            if self.queue@.len() == 0 { lemma_exhausted2(self.digraph, self.queue@, self.visited@); }
            lemma_ct_bounds(self.visited@);
        }
        let ghost mut add: Seq<int> = Seq::empty();
    @after `let w_next =`
        proof {
            assert(self.queue@ =~= old(self).queue@.skip(1) + new_entries(add, w_next));
            lemma_loop_init(self.digraph, u, self.visited@);
        }
    @loop 1
    invariant
        self.digraph == old(self).digraph,
        self.visited@.len() == self.digraph.ord(),
        old(self).queue@.len() > 0,
        (u, w) == old(self).queue@[0],
        w_next == w + 1,
        it1.iter.obeys_prophetic_iter_laws(),
        it1.iter.decrease() is Some,
        loop_inv(self.digraph, u, old(self).visited@, self.visited@, add, it1.seq(), it1.index()),
        it1.index() == it1.seq().len() ==> step_done(self.digraph, u, old(self).visited@, self.visited@, add),
        self.queue@ == old(self).queue@.skip(1) + new_entries(add, w_next),
    @loop_start 1
        let ghost vis_pre = self.visited@;
        let ghost add_pre = add;
        proof {
            assert(v == it1.seq()[it1.index()]);
            assert(v < self.visited@.len()) by { reveal(loop_inv); }
        }
    @after `self.queue.push`
        proof {
            add = add_pre.push(v as int);
            assert(self.queue@ =~= old(self).queue@.skip(1) + new_entries(add, w_next));
        }
    @loop_end 1
        proof {
            lemma_loop_step(self.digraph, u, old(self).visited@, vis_pre, add_pre, it1.seq(), it1.index(), self.visited@, add);
        }
    @fn_end
        proof {
            lemma_next_end2(self.digraph, old(self).queue@, old(self).visited@, self.queue@, self.visited@, add, w_next);
            lemma_ct_bounds(self.visited@);
            lemma_ct_bounds(old(self).visited@);
            assert(bstep(old(self).has(), old(self).qv(), old(self).lv(), old(self).visited@, self.qv(), self.lv(), self.visited@, add));
        }
    @*/

    /*@fn impl=BfsDist name=distances subst=D=>Dg drop=D dropwhere=D
    requires
        old(self).fresh(),
    ensures
        final(self).wf(),
        final(self).queue@.len() == 0,
        r@.len() == old(self).digraph.ord(),
        forall|v: int| 0 <= v < r@.len() ==> (#[trigger] r@[v] == usize::MAX <==> !reachable(old(self).has(), old(self).srcs(), v)),
        forall|v: int| 0 <= v < r@.len() && #[trigger] r@[v] != usize::MAX ==> is_min_walk_weight(old(self).has(), unit_w(), old(self).srcs(), v, r@[v] as int),
    @fn_start
        proof { self.lemma_fresh_inv(); lemma_ct_bounds(self.visited@); }
    @loop 1
    invariant
        self.wf(),
        self.digraph == old(self).digraph,
        order == self.digraph.ord(),
        self.inv(old(self).srcs()),
        distances@.len() == order,
        forall|v: int| 0 <= v < order ==> (#[trigger] distances@[v] == usize::MAX <==> !self.done(v)),
        forall|v: int| 0 <= v < order && #[trigger] distances@[v] != usize::MAX ==> is_min_walk_weight(self.has(), unit_w(), old(self).srcs(), v, distances@[v] as int),
        self.fuel() >= 0,
    ensures
        self.queue@.len() == 0,
    decreases
        self.fuel(),
    @before `*ptr.add(u) =`
        proof {
            assert(prev.inv(old(self).srcs()));
            assert(next_sem2(prev.digraph, prev.queue@, prev.visited@, self.queue@, self.visited@, old(self).srcs()));
        }
    @before_call 1
        let ghost prev = *self;
    @fn_end
        proof {
            lemma_exhausted2(self.digraph, self.queue@, self.visited@);
            assert(self.inv(old(self).srcs()));
        }
    @*/
}

// ---------------------------------------------------------------------------------------------
// C04 trace theorems: verified CLIENTS of the contracts above (template code, not extracted from /repo).
// They show that `new` + repeated `next` give exactly the behaviour the property text describes.
// ---------------------------------------------------------------------------------------------
spec fn occurs1(s: Seq<usize>, v: int) -> bool { exists|i: int| 0 <= i < s.len() && #[trigger] s[i] == v }
spec fn occurs2(s: Seq<(usize, usize)>, v: int) -> bool { exists|i: int| 0 <= i < s.len() && (#[trigger] s[i]).0 == v }

/// the C04 statement for the items `out` yielded so far by a Bfs in state (q, vis)
#[verifier::opaque]
spec fn trace1(has: ArcRel, srcs: Set<int>, out: Seq<usize>, q: Seq<usize>, vis: Seq<bool>) -> bool {
    &&& out.no_duplicates()
    &&& forall|v: int| is_done(qv_of1(q), vis, v) <==> #[trigger] occurs1(out, v)
    &&& forall|i: int| 0 <= i < out.len() ==> is_min_walk_weight(has, unit_w(), srcs, #[trigger] out[i] as int, hop(has, srcs, out[i] as int))
    &&& forall|i: int, j: int| 0 <= i <= j < out.len() ==> hop(has, srcs, #[trigger] out[i] as int) <= hop(has, srcs, #[trigger] out[j] as int)
    &&& forall|i: int, k: int| 0 <= i < out.len() && 0 <= k < q.len() ==> hop(has, srcs, #[trigger] out[i] as int) <= hop(has, srcs, #[trigger] q[k] as int)
}

proof fn lemma_trace1_init(has: ArcRel, srcs: Set<int>, q: Seq<usize>, vis: Seq<bool>)
    requires forall|v: int| !is_done(qv_of1(q), vis, v),
    ensures trace1(has, srcs, Seq::<usize>::empty(), q, vis),
{
    reveal(trace1);
}

proof fn lemma_trace1_step(dg: &Dg, srcs: Set<int>, out0: Seq<usize>, q0: Seq<usize>, vis0: Seq<bool>, q: Seq<usize>, vis: Seq<bool>)
    requires
        trace1(dg_has(dg), srcs, out0, q0, vis0),
        q0.len() > 0,
        next_sem1(dg, q0, vis0, q, vis, srcs),
    ensures
        trace1(dg_has(dg), srcs, out0.push(q0[0]), q, vis),
{
    reveal(trace1);
    let has = dg_has(dg);
    let u = q0[0];
    let out = out0.push(u);
    assert(!occurs1(out0, u as int));
    assert(out[out0.len() as int] == u);
    assert forall|v: int| is_done(qv_of1(q), vis, v) <==> #[trigger] occurs1(out, v) by {
        if occurs1(out0, v) {
            let i = choose|i: int| 0 <= i < out0.len() && #[trigger] out0[i] == v;
            assert(out[i] == v);
        }
        if occurs1(out, v) && v != u {
            let i = choose|i: int| 0 <= i < out.len() && #[trigger] out[i] == v;
            assert(out0[i] == v);
        }
    }
    assert forall|i: int| 0 <= i < out0.len() implies hop(has, srcs, #[trigger] out[i] as int) <= hop(has, srcs, u as int) by {
        assert(out[i] == out0[i]);
        assert(q0[0] == u);
    }
    assert forall|i: int, j: int| 0 <= i < j < out.len() implies out[i] != out[j] by {
        if j == out0.len() { assert(out0[i] == out[i]); assert(occurs1(out0, out0[i] as int)); }
        else { assert(out0[i] == out[i] && out0[j] == out[j]); }
    }
    assert forall|i: int| 0 <= i < out.len() implies is_min_walk_weight(has, unit_w(), srcs, #[trigger] out[i] as int, hop(has, srcs, out[i] as int)) by {
        if i < out0.len() { assert(out[i] == out0[i]); }
    }
    assert forall|i: int, j: int| 0 <= i <= j < out.len() implies hop(has, srcs, #[trigger] out[i] as int) <= hop(has, srcs, #[trigger] out[j] as int) by {
        if j < out0.len() { assert(out0[i] == out[i] && out0[j] == out[j]); }
        else if i < out0.len() { assert(out0[i] == out[i]); }
    }
    assert forall|i: int, k: int| 0 <= i < out.len() && 0 <= k < q.len() implies hop(has, srcs, #[trigger] out[i] as int) <= hop(has, srcs, #[trigger] q[k] as int) by {
        if i < out0.len() { assert(out[i] == out0[i]); }
    }
}

/// Bfs from distinct in-range sources yields every reachable vertex exactly once, nothing else,
/// in non-decreasing order of hop distance from the nearest source
fn c04_bfs_trace(b: &mut Bfs<'_>) -> (out: Vec<usize>)
    requires
        old(b).fresh(),
    ensures
        out@.no_duplicates(),
        forall|v: int| reachable(old(b).has(), old(b).srcs(), v) <==> #[trigger] occurs1(out@, v),
        forall|i: int| 0 <= i < out@.len() ==> is_min_walk_weight(old(b).has(), unit_w(), old(b).srcs(), #[trigger] out@[i] as int, hop(old(b).has(), old(b).srcs(), out@[i] as int)),
        forall|i: int, j: int| 0 <= i <= j < out@.len() ==> hop(old(b).has(), old(b).srcs(), #[trigger] out@[i] as int) <= hop(old(b).has(), old(b).srcs(), #[trigger] out@[j] as int),
{
    let mut out: Vec<usize> = Vec::new();
    let ghost has = b.has();
    let ghost srcs = b.srcs();
    proof {
        b.lemma_fresh_inv();
        lemma_ct_bounds(b.visited@);
        lemma_trace1_init(has, srcs, b.queue@, b.visited@);
    }
    let ghost mut prev = *b;
    loop
        invariant_except_break
            prev == *b,
        invariant
            b.wf(),
            b.digraph == old(b).digraph,
            has == old(b).has(),
            srcs == old(b).srcs(),
            b.inv(srcs),
            b.fuel() >= 0,
            trace1(has, srcs, out@, b.queue@, b.visited@),
        ensures
            forall|v: int| is_done(qv_of1(b.queue@), b.visited@, v) <==> reachable(has, srcs, v),
        decreases
            b.fuel(),
    {
        match b.next() {
            Some(u) => {
                proof {
                    assert(prev.inv(srcs));
                    lemma_trace1_step(b.digraph, srcs, out@, prev.queue@, prev.visited@, b.queue@, b.visited@);
                }
                out.push(u);
                proof { prev = *b; }
            }
            None => {
                proof {
                    assert(prev.inv(srcs));
                    assert forall|v: int| is_done(qv_of1(b.queue@), b.visited@, v) <==> reachable(has, srcs, v) by {
                        assert(prev.done(v) <==> reachable(prev.has(), srcs, v));
                    }
                }
                break;
            }
        }
    }
    proof { reveal(trace1); }
    out
}

/// the C04 statement for the items `out` yielded so far by a BfsDist in state (q, vis)
#[verifier::opaque]
spec fn trace2(has: ArcRel, srcs: Set<int>, out: Seq<(usize, usize)>, q: Seq<(usize, usize)>, vis: Seq<bool>) -> bool {
    &&& forall|i: int, j: int| 0 <= i < j < out.len() ==> (#[trigger] out[i]).0 != (#[trigger] out[j]).0
    &&& forall|v: int| is_done(qv_of(q), vis, v) <==> #[trigger] occurs2(out, v)
    &&& forall|i: int| 0 <= i < out.len() ==> is_min_walk_weight(has, unit_w(), srcs, (#[trigger] out[i]).0 as int, out[i].1 as int)
    &&& forall|i: int, j: int| 0 <= i <= j < out.len() ==> (#[trigger] out[i]).1 <= (#[trigger] out[j]).1
    &&& forall|i: int, k: int| 0 <= i < out.len() && 0 <= k < q.len() ==> (#[trigger] out[i]).1 <= (#[trigger] q[k]).1
}

proof fn lemma_trace2_init(has: ArcRel, srcs: Set<int>, q: Seq<(usize, usize)>, vis: Seq<bool>)
    requires forall|v: int| !is_done(qv_of(q), vis, v),
    ensures trace2(has, srcs, Seq::<(usize, usize)>::empty(), q, vis),
{
    reveal(trace2);
}

proof fn lemma_trace2_step(dg: &Dg, srcs: Set<int>, out0: Seq<(usize, usize)>, q0: Seq<(usize, usize)>, vis0: Seq<bool>, q: Seq<(usize, usize)>, vis: Seq<bool>)
    requires
        trace2(dg_has(dg), srcs, out0, q0, vis0),
        q0.len() > 0,
        next_sem2(dg, q0, vis0, q, vis, srcs),
    ensures
        trace2(dg_has(dg), srcs, out0.push(q0[0]), q, vis),
{
    reveal(trace2);
    let has = dg_has(dg);
    let x = q0[0];
    let out = out0.push(x);
    assert(!occurs2(out0, x.0 as int));
    assert(out[out0.len() as int] == x);
    assert forall|v: int| is_done(qv_of(q), vis, v) <==> #[trigger] occurs2(out, v) by {
        if occurs2(out0, v) {
            let i = choose|i: int| 0 <= i < out0.len() && (#[trigger] out0[i]).0 == v;
            assert(out[i].0 == v);
        }
        if occurs2(out, v) && v != x.0 {
            let i = choose|i: int| 0 <= i < out.len() && (#[trigger] out[i]).0 == v;
            assert(out0[i].0 == v);
        }
    }
    assert forall|i: int| 0 <= i < out0.len() implies (#[trigger] out[i]).1 <= x.1 by {
        assert(out[i] == out0[i]);
        assert(q0[0] == x);
    }
    assert forall|i: int, j: int| 0 <= i < j < out.len() implies (#[trigger] out[i]).0 != (#[trigger] out[j]).0 by {
        if j == out0.len() { assert(out0[i] == out[i]); assert(occurs2(out0, out0[i].0 as int)); }
        else { assert(out0[i] == out[i] && out0[j] == out[j]); }
    }
    assert forall|i: int| 0 <= i < out.len() implies is_min_walk_weight(has, unit_w(), srcs, (#[trigger] out[i]).0 as int, out[i].1 as int) by {
        if i < out0.len() { assert(out[i] == out0[i]); }
    }
    assert forall|i: int, j: int| 0 <= i <= j < out.len() implies (#[trigger] out[i]).1 <= (#[trigger] out[j]).1 by {
        if j < out0.len() { assert(out0[i] == out[i] && out0[j] == out[j]); }
        else if i < out0.len() { assert(out0[i] == out[i]); }
    }
    assert forall|i: int, k: int| 0 <= i < out.len() && 0 <= k < q.len() implies (#[trigger] out[i]).1 <= (#[trigger] q[k]).1 by {
        if i < out0.len() { assert(out[i] == out0[i]); }
    }
}

/// BfsDist from distinct in-range sources yields every reachable vertex exactly once, nothing else, each paired with
/// its exact hop distance from the nearest source, in non-decreasing order of that distance
fn c04_bfs_dist_trace(b: &mut BfsDist<'_>) -> (out: Vec<(usize, usize)>)
    requires
        old(b).fresh(),
    ensures
        forall|i: int, j: int| 0 <= i < j < out@.len() ==> (#[trigger] out@[i]).0 != (#[trigger] out@[j]).0,
        forall|v: int| reachable(old(b).has(), old(b).srcs(), v) <==> #[trigger] occurs2(out@, v),
        forall|i: int| 0 <= i < out@.len() ==> is_min_walk_weight(old(b).has(), unit_w(), old(b).srcs(), (#[trigger] out@[i]).0 as int, out@[i].1 as int),
        forall|i: int, j: int| 0 <= i <= j < out@.len() ==> (#[trigger] out@[i]).1 <= (#[trigger] out@[j]).1,
{
    let mut out: Vec<(usize, usize)> = Vec::new();
    let ghost has = b.has();
    let ghost srcs = b.srcs();
    proof {
        b.lemma_fresh_inv();
        lemma_ct_bounds(b.visited@);
        lemma_trace2_init(has, srcs, b.queue@, b.visited@);
    }
    let ghost mut prev = *b;
    loop
        invariant_except_break
            prev == *b,
        invariant
            b.wf(),
            b.digraph == old(b).digraph,
            has == old(b).has(),
            srcs == old(b).srcs(),
            b.inv(srcs),
            b.fuel() >= 0,
            trace2(has, srcs, out@, b.queue@, b.visited@),
        ensures
            forall|v: int| is_done(qv_of(b.queue@), b.visited@, v) <==> reachable(has, srcs, v),
        decreases
            b.fuel(),
    {
        match b.next() {
            Some(x) => {
                proof {
                    assert(prev.inv(srcs));
                    lemma_trace2_step(b.digraph, srcs, out@, prev.queue@, prev.visited@, b.queue@, b.visited@);
                }
                out.push(x);
                proof { prev = *b; }
            }
            None => {
                proof {
                    assert(prev.inv(srcs));
                    assert forall|v: int| is_done(qv_of(b.queue@), b.visited@, v) <==> reachable(has, srcs, v) by {
                        assert(prev.done(v) <==> reachable(prev.has(), srcs, v));
                    }
                }
                break;
            }
        }
    }
    proof { reveal(trace2); }
    out
}

} // verus!
fn main() {}
