//@unit props=C04,C13 tier=quick rlimit=30
//@file src/algo/bfs.rs
use vstd::prelude::*;
use std::collections::VecDeque;
use vstd::std_specs::iter::IteratorSpec;
verus! {
global size_of usize == 8;
//@include prelude/std_contracts.rs
//@include prelude/dg.rs
//@include speclib/graph.rs

/*@struct name=Bfs subst=D=>Dg drop=D @*/

impl<'a> Bfs<'a> {
    spec fn inv(&self) -> bool {
        &&& self.digraph.wf()
        &&& self.visited.len() == self.digraph.ord()
        &&& forall|i: int| 0 <= i < self.queue@.len() ==> #[trigger] self.queue@[i] < self.visited.len()
    }

    /*@fn impl=Bfs name=new subst=D=>Dg drop=D dropwhere=D
    requires
        digraph.wf(),
        sources.obeys_prophetic_iter_laws(),
        sources.decrease() is Some,
    ensures
        r.inv(),
    @loop 1
    invariant
        true,
    @*/

    /*@fn impl=Bfs trait=Iterator name=next subst=Self::Item=>usize
    requires
        old(self).inv(),
    ensures
        final(self).inv(),
    @loop 1
    invariant
        true,
    @*/
}

} // verus!
fn main() {}
