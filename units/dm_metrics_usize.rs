//@unit props=C18,C13 tier=quick rlimit=30
// (W = usize instance: units/inc/dm_metrics_usize.inc.rs is `sed s/isize/usize/g` of units/inc/dm_metrics.inc.rs; regenerate it when that file changes)
use vstd::prelude::*;
use vstd::slice::SliceIndexSpec;
use vstd::std_specs::iter::IteratorSpec;
use core::cmp::Ordering::{Equal, Greater, Less};
verus! {
global size_of usize == 8;
//@include prelude/std_contracts.rs
//@include prelude/dm_metrics_std.rs
//@import units/inc/distance_matrix.inc.rs
//@include units/inc/dm_metrics_usize.inc.rs
} // verus!
fn main() {}
