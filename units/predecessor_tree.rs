//@unit props=C19,C13 tier=quick rlimit=30
//@file src/algo/predecessor_tree.rs
use vstd::prelude::*;
use vstd::slice::SliceIndexSpec;
verus! {
global size_of usize == 8;
//@include prelude/std_contracts.rs

/*@struct name=PredecessorTree @*/

impl PredecessorTree {
    /*@fn impl=PredecessorTree name=new
    ensures
        order > 0,
    @*/

    /*@fn impl=PredecessorTree name=search_by
    requires
        s < self.pred.len(),
    ensures
        true,
    @loop 1
    invariant
        true,
    decreases
        0int,
    @*/

    /*@fn impl=PredecessorTree name=search
    requires
        s < self.pred.len(),
    ensures
        true,
    @closure 1 |v__r: &usize, _p: &Option<usize>| -> (b: bool)
    ensures b == (*v__r == t)
    @*/

    /*@fn impl=PredecessorTree trait=Index name=index subst=Self::Output=>Option<usize>
    requires
        index < self.pred.len(),
    ensures
        *r == self.pred@[index as int],
    @*/

    /*@fn impl=PredecessorTree trait=IndexMut name=index_mut subst=Self::Output=>Option<usize>
    requires
        index < old(self).pred.len(),
    ensures
        true,
    @*/
}

} // verus!
fn main() {}
