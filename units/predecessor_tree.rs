//@unit props=C19,C13 tier=quick rlimit=30
//@file src/algo/predecessor_tree.rs
// search_by mutates its by-value parameter `s` and returns from inside the loop: the postcondition speaks
// about the INITIAL s, which an isolated loop body cannot name. Verify loops in the context of their function.
#![verifier::loop_isolation(false)]
use vstd::prelude::*;
use vstd::slice::SliceIndexSpec;
use vstd::std_specs::iter::IteratorSpec;
verus! {
global size_of usize == 8;
//@include prelude/std_contracts.rs

// ---------------------------------------------------------------------------------------------
// abstraction: the predecessor vector as a partial function, k-fold predecessor, predicate answers
// ---------------------------------------------------------------------------------------------

/// every entry is None or an in-range vertex (the hypothesis of C19; NOT assumed for memory safety)
spec fn entries_in_range(pr: Seq<Option<usize>>) -> bool {
    forall|i: int| 0 <= i < pr.len() ==> (#[trigger] pr[i] matches Some(u) ==> u < pr.len())
}

/// the vertex reached from `s` after following `k` predecessor links; None once the chain has ended
/// (an entry None, or a vertex that is not in the tree and therefore has no predecessor entry)
spec fn chain(pr: Seq<Option<usize>>, s: usize, k: nat) -> Option<usize>
    decreases k,
{
    if k == 0 {
        Some(s)
    } else {
        match chain(pr, s, (k - 1) as nat) {
            Some(u) => if u < pr.len() { pr[u as int] } else { None },
            None => None,
        }
    }
}

/// "calling f on (a, its predecessor entry b) can return r"
spec fn says<F: Fn(&usize, &Option<usize>) -> bool>(f: F, a: usize, b: Option<usize>, r: bool) -> bool {
    f.ensures((&a, &b), r)
}

spec fn callable<F: Fn(&usize, &Option<usize>) -> bool>(f: F) -> bool {
    forall|a: usize, b: Option<usize>| #[trigger] f.requires((&a, &b))
}

spec fn deterministic<F: Fn(&usize, &Option<usize>) -> bool>(f: F) -> bool {
    forall|a: usize, b: Option<usize>, r1: bool, r2: bool|
        #[trigger] says(f, a, b, r1) && #[trigger] says(f, a, b, r2) ==> r1 == r2
}

/// the k-th vertex of the chain exists, is a vertex of the tree, and the predicate accepts it
spec fn pos_at<F: Fn(&usize, &Option<usize>) -> bool>(pr: Seq<Option<usize>>, f: F, s: usize, k: nat) -> bool {
    match chain(pr, s, k) {
        Some(u) => u < pr.len() && says(f, u, pr[u as int], true),
        None => false,
    }
}

/// the k-th vertex of the chain, if it exists and is a vertex of the tree, is rejected by the predicate
spec fn neg_at<F: Fn(&usize, &Option<usize>) -> bool>(pr: Seq<Option<usize>>, f: F, s: usize, k: nat) -> bool {
    match chain(pr, s, k) {
        Some(u) => u < pr.len() ==> says(f, u, pr[u as int], false),
        None => true,
    }
}

/// k is the first position of the chain accepted by the predicate
spec fn first_hit<F: Fn(&usize, &Option<usize>) -> bool>(pr: Seq<Option<usize>>, f: F, s: usize, k: nat) -> bool {
    pos_at(pr, f, s, k) && forall|j: nat| #![trigger chain(pr, s, j)] j < k ==> neg_at(pr, f, s, j)
}

/// p is exactly chain(0), ..., chain(k)
spec fn is_prefix(pr: Seq<Option<usize>>, s: usize, k: nat, p: Seq<usize>) -> bool {
    p.len() == k + 1 && forall|i: int| 0 <= i <= k ==> chain(pr, s, i as nat) == Some(#[trigger] p[i])
}

/// p starts at s, stays inside the tree and each element is the predecessor of the one before it
spec fn link_path(pr: Seq<Option<usize>>, s: usize, p: Seq<usize>) -> bool {
    &&& p.len() > 0
    &&& p[0] == s
    &&& forall|i: int| 0 <= i < p.len() ==> #[trigger] p[i] < pr.len()
    &&& forall|i: int| 0 < i < p.len() ==> #[trigger] link(pr, p, i)
}

/// p[i] is the predecessor of p[i - 1]
spec fn link(pr: Seq<Option<usize>>, p: Seq<usize>, i: int) -> bool {
    pr[p[i - 1] as int] == Some(p[i])
}

spec fn distinct(p: Seq<usize>) -> bool {
    forall|i: int, j: int| 0 <= i < j < p.len() ==> p[i] != p[j]
}

/// x was marked: it is chain(i) for some 1 <= i <= k
spec fn seen(pr: Seq<Option<usize>>, s: usize, k: nat, x: usize) -> bool {
    exists|i: nat| 1 <= i <= k && chain(pr, s, i) == Some(x)
}

/// state after walking a self-loop `pred[s] == Some(s)`: the vertex was not pushed again; the next
/// iteration necessarily leaves the loop through the `visited` test
spec fn dead(pr: Seq<Option<usize>>, s0: usize, k: nat, s: usize, vis: Seq<bool>) -> bool {
    &&& k >= 1
    &&& s < pr.len()
    &&& s < vis.len()
    &&& chain(pr, s0, (k - 1) as nat) == Some(s)
    &&& pr[s as int] == Some(s)
    &&& vis[s as int]
}

spec fn count_false(v: Seq<bool>) -> nat
    decreases v.len(),
{
    if v.len() == 0 {
        0
    } else {
        count_false(v.drop_last()) + if v.last() { 0nat } else { 1nat }
    }
}

// ---------------------------------------------------------------------------------------------
// lemmas
// ---------------------------------------------------------------------------------------------

proof fn lemma_count_false_update(v: Seq<bool>, i: int)
    requires 0 <= i < v.len(), !v[i],
    ensures count_false(v.update(i, true)) < count_false(v),
    decreases v.len(),
{
    let w = v.update(i, true);
    if i == v.len() - 1 {
        assert(w.drop_last() =~= v.drop_last());
    } else {
        assert(w.drop_last() =~= v.drop_last().update(i, true));
        lemma_count_false_update(v.drop_last(), i);
    }
}

/// while the chain is alive at k, every earlier position is a vertex of the tree
proof fn lemma_chain_alive_before(pr: Seq<Option<usize>>, s: usize, k: nat, j: nat)
    requires chain(pr, s, k) is Some, j < k,
    ensures chain(pr, s, j) matches Some(u) && u < pr.len(),
    decreases k,
{
    if j + 1 < k {
        lemma_chain_alive_before(pr, s, (k - 1) as nat, j);
    }
}

/// once the chain has ended (None, or left the tree) it stays ended
proof fn lemma_chain_ended_after(pr: Seq<Option<usize>>, s: usize, k: nat, n: nat)
    requires
        chain(pr, s, k) matches Some(u) ==> u >= pr.len(),
        n > k,
    ensures chain(pr, s, n) is None,
    decreases n,
{
    if n > k + 1 {
        lemma_chain_ended_after(pr, s, k, (n - 1) as nat);
    }
}

/// chain(i) == chain(i + p)  ==>  chain(i + m) == chain(i + p + m)
proof fn lemma_periodic(pr: Seq<Option<usize>>, s: usize, i: nat, p: nat, m: nat)
    requires chain(pr, s, i) == chain(pr, s, i + p),
    ensures chain(pr, s, i + m) == chain(pr, s, i + p + m),
    decreases m,
{
    if m > 0 {
        lemma_periodic(pr, s, i, p, (m - 1) as nat);
        assert(chain(pr, s, (i + m - 1) as nat) == chain(pr, s, (i + p + m - 1) as nat));
    }
}

/// the chain ended right after position k and nothing up to k was accepted: nothing is ever accepted
proof fn lemma_ended_all_neg<F: Fn(&usize, &Option<usize>) -> bool>(pr: Seq<Option<usize>>, f: F, s: usize, k: nat)
    requires
        forall|j: nat| j <= k ==> neg_at(pr, f, s, j),
        chain(pr, s, k + 1) matches Some(u) ==> u >= pr.len(),
    ensures
        forall|n: nat| neg_at(pr, f, s, n),
{
    assert forall|n: nat| neg_at(pr, f, s, n) by {
        if n > k + 1 {
            lemma_chain_ended_after(pr, s, k + 1, n);
        }
    }
}

/// position k+1 revisits position i <= k and nothing up to k was accepted: nothing is ever accepted
proof fn lemma_cycle_neg<F: Fn(&usize, &Option<usize>) -> bool>(pr: Seq<Option<usize>>, f: F, s: usize, k: nat, i: nat, n: nat)
    requires
        forall|j: nat| j <= k ==> neg_at(pr, f, s, j),
        i <= k,
        chain(pr, s, k + 1) == chain(pr, s, i),
    ensures
        neg_at(pr, f, s, n),
    decreases n,
{
    if n > k {
        let p = (k + 1 - i) as nat;
        let m = (n - p - i) as nat;
        lemma_periodic(pr, s, i, p, m);
        assert(i + m == n - p && i + p + m == n);
        lemma_cycle_neg(pr, f, s, k, i, (n - p) as nat);
    }
}

proof fn lemma_cycle_all_neg<F: Fn(&usize, &Option<usize>) -> bool>(pr: Seq<Option<usize>>, f: F, s: usize, k: nat, i: nat)
    requires
        forall|j: nat| j <= k ==> neg_at(pr, f, s, j),
        i <= k,
        chain(pr, s, k + 1) == chain(pr, s, i),
    ensures
        forall|n: nat| neg_at(pr, f, s, n),
{
    assert forall|n: nat| neg_at(pr, f, s, n) by {
        lemma_cycle_neg(pr, f, s, k, i, n);
    }
}

/// the readable consequences of "p is the chain up to its first accepted position"
proof fn lemma_first_hit_path<F: Fn(&usize, &Option<usize>) -> bool>(pr: Seq<Option<usize>>, f: F, s: usize, k: nat, p: Seq<usize>)
    requires
        deterministic(f),
        first_hit(pr, f, s, k),
        is_prefix(pr, s, k, p),
    ensures
        link_path(pr, s, p),
        says(f, p.last(), pr[p.last() as int], true),
        forall|i: int| 0 <= i < p.len() - 1 ==> says(f, #[trigger] p[i], pr[p[i] as int], false),
        distinct(p),
{
    assert(chain(pr, s, 0) == Some(p[0]));
    assert(chain(pr, s, k) == Some(p[k as int]));
    assert forall|i: int| 0 <= i < p.len() implies #[trigger] p[i] < pr.len() by {
        assert(chain(pr, s, i as nat) == Some(p[i]));
        if i < k {
            lemma_chain_alive_before(pr, s, k, i as nat);
        }
    }
    assert forall|i: int| 0 < i < p.len() implies #[trigger] link(pr, p, i) by {
        assert(chain(pr, s, i as nat) == Some(p[i]));
        assert(chain(pr, s, (i - 1) as nat) == Some(p[i - 1]));
    }
    assert forall|i: int| 0 <= i < p.len() - 1 implies says(f, #[trigger] p[i], pr[p[i] as int], false) by {
        assert(chain(pr, s, i as nat) == Some(p[i]));
        assert(neg_at(pr, f, s, i as nat));
    }
    assert forall|i: int, j: int| 0 <= i < j < p.len() implies p[i] != p[j] by {
        if p[i] == p[j] {
            assert(chain(pr, s, i as nat) == Some(p[i]));
            assert(chain(pr, s, j as nat) == Some(p[j]));
            let per = (j - i) as nat;
            let m = (k - j) as nat;
            assert(i as nat + per == j as nat);
            lemma_periodic(pr, s, i as nat, per, m);
            let e = (i + m) as nat;
            assert(i as nat + per + m == k);
            assert(chain(pr, s, e) == chain(pr, s, k));
            assert(e < k);
            assert(neg_at(pr, f, s, e));
            assert(pos_at(pr, f, s, k));
        }
    }
}


/// the predicate rejects every vertex of the tree that the chain from s ever reaches
spec fn never<F: Fn(&usize, &Option<usize>) -> bool>(pr: Seq<Option<usize>>, f: F, s: usize) -> bool {
    forall|n: nat| #![trigger chain(pr, s, n)] neg_at(pr, f, s, n)
}

/// what the Some(path) answer means (chain form + readable form)
#[verifier::opaque]
spec fn found<F: Fn(&usize, &Option<usize>) -> bool>(pr: Seq<Option<usize>>, f: F, s: usize, p: Seq<usize>) -> bool {
    &&& exists|k: nat| first_hit(pr, f, s, k) && is_prefix(pr, s, k, p)
    &&& link_path(pr, s, p)
    &&& says(f, p.last(), pr[p.last() as int], true)
    &&& forall|i: int| 0 <= i < p.len() - 1 ==> says(f, #[trigger] p[i], pr[p[i] as int], false)
    &&& distinct(p)
}

/// loop invariant of search_by (k = number of links followed so far, a ghost counter)
#[verifier::opaque]
spec fn inv<F: Fn(&usize, &Option<usize>) -> bool>(pr: Seq<Option<usize>>, f: F, s0: usize, k: nat, s: usize, vis: Seq<bool>, path: Seq<usize>) -> bool {
    &&& s0 < pr.len()
    &&& s < pr.len()
    &&& vis.len() == pr.len()
    &&& chain(pr, s0, k) == Some(s)
    &&& forall|j: nat| j < k ==> neg_at(pr, f, s0, j)
    &&& forall|x: int| 0 <= x < vis.len() && #[trigger] vis[x] ==> seen(pr, s0, k, x as usize)
    &&& (dead(pr, s0, k, s, vis) || is_prefix(pr, s0, k, path))
}

proof fn lemma_init<F: Fn(&usize, &Option<usize>) -> bool>(pr: Seq<Option<usize>>, f: F, s0: usize, vis: Seq<bool>, path: Seq<usize>)
    requires
        s0 < pr.len(),
        vis.len() == pr.len(),
        forall|x: int| 0 <= x < vis.len() ==> !vis[x],
        path.len() == 1,
        path[0] == s0,
    ensures
        inv(pr, f, s0, 0, s0, vis, path),
{
    reveal(inv);
    assert(chain(pr, s0, 0) == Some(s0));
    assert(is_prefix(pr, s0, 0, path));
}

/// the predicate accepted the current vertex: the path built so far is the answer
proof fn lemma_hit<F: Fn(&usize, &Option<usize>) -> bool>(pr: Seq<Option<usize>>, f: F, s0: usize, k: nat, s: usize, vis: Seq<bool>, path: Seq<usize>)
    requires
        inv(pr, f, s0, k, s, vis, path),
        deterministic(f),
        s < pr.len(),
        says(f, s, pr[s as int], true),
    ensures
        found(pr, f, s0, path),
{
    reveal(inv);
    if dead(pr, s0, k, s, vis) {
        assert(neg_at(pr, f, s0, (k - 1) as nat));
        assert(says(f, s, pr[s as int], false));
        assert(false);
    }
    assert(pos_at(pr, f, s0, k));
    assert(first_hit(pr, f, s0, k));
    lemma_first_hit_path(pr, f, s0, k, path);
    reveal(found);
}

proof fn lemma_miss<F: Fn(&usize, &Option<usize>) -> bool>(pr: Seq<Option<usize>>, f: F, s0: usize, k: nat, s: usize, vis: Seq<bool>, path: Seq<usize>)
    requires
        inv(pr, f, s0, k, s, vis, path),
        s < pr.len(),
        says(f, s, pr[s as int], false),
    ensures
        forall|j: nat| j <= k ==> neg_at(pr, f, s0, j),
        chain(pr, s0, k + 1) == pr[s as int],
{
    reveal(inv);
    assert(neg_at(pr, f, s0, k));
    assert(chain(pr, s0, (k + 1 - 1) as nat) == Some(s));
}

/// leaving the loop because the chain ended (entry None, or an entry that is not a vertex of the tree)
proof fn lemma_break_ended<F: Fn(&usize, &Option<usize>) -> bool>(pr: Seq<Option<usize>>, f: F, s0: usize, k: nat, s: usize, vis: Seq<bool>, path: Seq<usize>)
    requires
        inv(pr, f, s0, k, s, vis, path),
        s < pr.len(),
        says(f, s, pr[s as int], false),
        pr[s as int] matches Some(v) ==> v >= pr.len(),
    ensures
        never(pr, f, s0),
{
    lemma_miss(pr, f, s0, k, s, vis, path);
    lemma_ended_all_neg(pr, f, s0, k);
}

/// leaving the loop because the next vertex is marked: the chain has entered a cycle that was inspected completely
proof fn lemma_break_visited<F: Fn(&usize, &Option<usize>) -> bool>(pr: Seq<Option<usize>>, f: F, s0: usize, k: nat, s: usize, vis: Seq<bool>, path: Seq<usize>, v: usize)
    requires
        inv(pr, f, s0, k, s, vis, path),
        s < pr.len(),
        says(f, s, pr[s as int], false),
        pr[s as int] == Some(v),
        v < vis.len(),
        vis[v as int],
    ensures
        never(pr, f, s0),
{
    lemma_miss(pr, f, s0, k, s, vis, path);
    assert(seen(pr, s0, k, v)) by { reveal(inv); }
    let i = choose|i: nat| 1 <= i <= k && chain(pr, s0, i) == Some(v);
    lemma_cycle_all_neg(pr, f, s0, k, i);
}

/// following one more link
proof fn lemma_step<F: Fn(&usize, &Option<usize>) -> bool>(pr: Seq<Option<usize>>, f: F, s0: usize, k: nat, s: usize, vis: Seq<bool>, path: Seq<usize>, v: usize)
    requires
        inv(pr, f, s0, k, s, vis, path),
        s < pr.len(),
        says(f, s, pr[s as int], false),
        pr[s as int] == Some(v),
        v < pr.len(),
        v < vis.len(),
        !vis[v as int],
    ensures
        inv(pr, f, s0, k + 1, v, vis.update(v as int, true), if v != s { path.push(v) } else { path }),
        count_false(vis.update(v as int, true)) < count_false(vis),
{
    lemma_miss(pr, f, s0, k, s, vis, path);
    reveal(inv);
    let vis2 = vis.update(v as int, true);
    let path2 = if v != s { path.push(v) } else { path };
    lemma_count_false_update(vis, v as int);
    assert(!dead(pr, s0, k, s, vis));
    assert(chain(pr, s0, k + 1) == Some(v));
    assert forall|j: nat| j < k + 1 implies neg_at(pr, f, s0, j) by {}
    assert forall|x: int| 0 <= x < vis2.len() && #[trigger] vis2[x] implies seen(pr, s0, k + 1, x as usize) by {
        if x == v {
            assert(1 <= k + 1 <= k + 1 && chain(pr, s0, k + 1) == Some(x as usize));
        } else {
            assert(vis[x]);
            assert(seen(pr, s0, k, x as usize));
            let i = choose|i: nat| 1 <= i <= k && chain(pr, s0, i) == Some(x as usize);
            assert(1 <= i <= k + 1 && chain(pr, s0, i) == Some(x as usize));
        }
    }
    if v != s {
        assert(is_prefix(pr, s0, k + 1, path2));
    } else {
        assert(chain(pr, s0, ((k + 1) - 1) as nat) == Some(v));
        assert(dead(pr, s0, k + 1, v, vis2));
    }
}

// ---------------------------------------------------------------------------------------------
// meta-lemmas: what the contract means (not used by the proofs of the code)
// ---------------------------------------------------------------------------------------------

/// under the hypothesis of C19 (entries in range, start vertex in the tree) the chain never leaves the
/// tree, so "the chain ends" just means "an entry None was met"
proof fn lemma_in_range_chain(pr: Seq<Option<usize>>, s: usize, k: nat)
    requires entries_in_range(pr), s < pr.len(),
    ensures chain(pr, s, k) matches Some(u) ==> u < pr.len(),
    decreases k,
{
    if k > 0 {
        lemma_in_range_chain(pr, s, (k - 1) as nat);
    }
}

/// the postcondition of search_by determines the answer: Some/None are mutually exclusive and the path is unique
proof fn lemma_answer_unique<F: Fn(&usize, &Option<usize>) -> bool>(pr: Seq<Option<usize>>, f: F, s: usize, p1: Seq<usize>, p2: Seq<usize>)
    requires deterministic(f), found(pr, f, s, p1),
    ensures
        !never(pr, f, s),
        found(pr, f, s, p2) ==> p1 == p2,
{
    reveal(found);
    let k1 = choose|k: nat| first_hit(pr, f, s, k) && is_prefix(pr, s, k, p1);
    assert(pos_at(pr, f, s, k1));
    if never(pr, f, s) {
        assert(neg_at(pr, f, s, k1));
    }
    if found(pr, f, s, p2) {
        let k2 = choose|k: nat| first_hit(pr, f, s, k) && is_prefix(pr, s, k, p2);
        assert(pos_at(pr, f, s, k2));
        if k1 < k2 { assert(neg_at(pr, f, s, k1)); }
        if k2 < k1 { assert(neg_at(pr, f, s, k2)); }
        assert(p1 =~= p2);
    }
}

/// rustdoc example of `search`, and a cyclic vector, decided from the contract alone
fn doc_examples() {
    let t = PredecessorTree { pred: vec![Some(1usize), Some(2usize), Some(3usize), None] };
    let r = t.search(0, 3);
    proof {
        reveal_with_fuel(chain, 5);
        assert(chain(t.pred@, 0, 3) == Some(3usize));
        assert(chain(t.pred@, 0, 2) == Some(2usize));
        assert(chain(t.pred@, 0, 1) == Some(1usize));
        assert(chain(t.pred@, 0, 0) == Some(0usize));
    }
    assert(r is Some);
    assert(r->0@ =~= seq![0usize, 1, 2, 3]);

    let c = PredecessorTree { pred: vec![Some(1usize), Some(2usize), Some(0usize), None] };
    let q = c.search(0, 3);
    proof {
        assert forall|k: nat| chain(c.pred@, 0, k) != Some(3usize) by { lemma_circuit(c.pred@, k); }
    }
    assert(q is None);
}

proof fn lemma_circuit(pr: Seq<Option<usize>>, k: nat)
    requires pr.len() == 4, pr[0] == Some(1usize), pr[1] == Some(2usize), pr[2] == Some(0usize),
    ensures chain(pr, 0, k) matches Some(u) && u < 3,
    decreases k,
{
    if k > 0 {
        lemma_circuit(pr, (k - 1) as nat);
    }
}

// ---------------------------------------------------------------------------------------------
// the code under contract
// ---------------------------------------------------------------------------------------------

/*@struct name=PredecessorTree @*/

impl PredecessorTree {
    /*@fn impl=PredecessorTree name=new
    ensures
        order > 0,
        r.pred@.len() == order,
        forall|i: int| 0 <= i < order ==> r.pred@[i] is None,
    @*/

    // `s < self.pred.len()`: for s out of range the function panics in `self.pred[s]` (documented
    // panic of Vec indexing, a safe operation); vstd's Vec::index demands the bound, so the panic
    // case is outside this contract. No assumption whatsoever is made on the ENTRIES of `pred`.
    // no range precondition on `s`: `self.pred[s]` panics for a start vertex outside the tree (documented; rule E4b)
    /*@fn impl=PredecessorTree name=search_by safeindex
    requires
        callable(is_target),
        deterministic(is_target),
    ensures
        s < self.pred.len(),
        match r {
            Some(p) => found(self.pred@, is_target, s, p@),
            None => never(self.pred@, is_target, s),
        },
    @fn_start
        let ghost s0 = s;
        let ghost pr = self.pred@;
    @before `return Some(vec![s])`
        proof {
            lemma_init(pr, is_target, s0, Seq::new(pr.len(), |i: int| false), seq![s0]);
            lemma_hit(pr, is_target, s0, 0, s0, Seq::new(pr.len(), |i: int| false), seq![s0]);
            assert forall|p: Seq<usize>| p.len() == 1 && p[0] == s0 implies #[trigger] found(pr, is_target, s0, p) by {
                assert(p =~= seq![s0]);
            }
        }
    @before `while let Some(&v)`
        let ghost mut k: nat = 0;
        proof {
            lemma_init(pr, is_target, s0, visited@, path@);
        }
    @loop 1
    invariant
        pr == self.pred@,
        callable(is_target),
        deterministic(is_target),
        s < pr.len(),
        visited@.len() == pr.len(),
        inv(pr, is_target, s0, k, s, visited@, path@),
    decreases
        count_false(visited@),
    @before `return Some(path)`
        proof {
            lemma_hit(pr, is_target, s0, k, s, visited@, path@);
        }
    @before `if let Some(v) = v`
        proof {
            // here is_target(s, pred[s]) has answered false; one proof step per way the iteration can go on
            match v {
                None => { lemma_break_ended(pr, is_target, s0, k, s, visited@, path@); }
                Some(w) => {
                    if w >= pr.len() {
                        lemma_break_ended(pr, is_target, s0, k, s, visited@, path@);
                    } else if visited@[w as int] {
                        lemma_break_visited(pr, is_target, s0, k, s, visited@, path@, w);
                    } else {
                        lemma_step(pr, is_target, s0, k, s, visited@, path@, w);
                    }
                }
            }
        }
    @after `s = v;`
        proof {
            k = k + 1;
        }
    @*/

    // search(s, t) is search_by with the predicate "vertex equals t"
    /*@fn impl=PredecessorTree name=search
    ensures
        s < self.pred.len(),
        match r {
            Some(p) => exists|k: nat| chain(self.pred@, s, k) == Some(t) && t < self.pred.len()
                && (forall|j: nat| j < k ==> chain(self.pred@, s, j) != Some(t))
                && is_prefix(self.pred@, s, k, p@),
            None => forall|k: nat| !(chain(self.pred@, s, k) == Some(t) && t < self.pred.len()),
        },
        r matches Some(p) ==> link_path(self.pred@, s, p@) && p@.last() == t
            && (forall|i: int| 0 <= i < p@.len() - 1 ==> #[trigger] p@[i] != t)
            && distinct(p@),
    @fn_start
        proof { reveal(found); }
    @closure 1 |v__r: &usize, _p: &Option<usize>| -> (b: bool)
    ensures b == (*v__r == t)
    @*/

    // Index / IndexMut: out-of-range `index` is the documented panic of Vec indexing (outside the contract)
    /*@fn impl=PredecessorTree trait=From name=from
    ensures
        r.pred@ == pred@,
    @*/

    /*@fn impl=PredecessorTree trait=IntoIterator name=into_iter subst=Self::IntoIter=>std::vec::IntoIter<Option<usize>>
    ensures
        r.obeys_prophetic_iter_laws(),
        r.remaining() == self.pred@,
    @*/

    // no precondition: an index outside the tree panics (safe indexing, rule E4b), it is never read
    /*@fn impl=PredecessorTree trait=Index name=index subst=Self::Output=>Option<usize> safeindex
    ensures
        index < self.pred.len(),
        *r == self.pred@[index as int],
    @*/

    /*@fn impl=PredecessorTree trait=IndexMut name=index_mut subst=Self::Output=>Option<usize> safeindex
    ensures
        index < old(self).pred.len(),
        *r == old(self).pred@[index as int],
        final(self).pred@ == old(self).pred@.update(index as int, *final(r)),
    @*/
}

} // verus!
fn main() {}
