//@unit props=C18,C13,C08 tier=quick rlimit=30
#![feature(allocator_api)]
use vstd::prelude::*;
use vstd::slice::SliceIndexSpec;
verus! {
global size_of usize == 8;
//@include prelude/std_contracts.rs
//@include prelude/dm_new_std.rs
//@import units/inc/distance_matrix.inc.rs
//@include units/inc/dm_new.inc.rs
} // verus!
fn main() {}
