//@unit props=C01,C02,C13,C20 tier=quick rlimit=30
//@file src/repr/edge_list/mod.rs
use vstd::prelude::*;
use vstd::slice::SliceIndexSpec;
use vstd::std_specs::iter::IteratorSpec;
use std::collections::BTreeSet;
use std::collections::btree_set;
verus! {
global size_of usize == 8;
//@include prelude/std_contracts.rs
//@include prelude/list_core_std.rs

//@include units/inc/edge_list_core.inc.rs

// Kept out of the inc fragment on purpose: this function carries a GENUINE finding (see report):
// `order + 1` overflows for an arc with endpoint usize::MAX, e.g. EdgeList::from([(0, usize::MAX)]) has
// order() == 0 and size() == 1 in release builds (undocumented panic in debug builds).
// `I` is instantiated to Vec<(usize, usize)> (contract-level monomorphisation of `I: IntoIterator<Item = (usize, usize)>`).
impl EdgeList {
    /*@fn impl=EdgeList trait=From implhas='impl<I> From<I>' name=from subst=I=>Vec<(usize,usize)> props=C01,C13
    ensures
        r.wf(),
        forall|p: (usize, usize)| r.arcs@.contains(p) == iter@.contains(p),
        forall|i: int| 0 <= i < iter@.len() ==> (#[trigger] iter@[i]).0 != iter@[i].1,
    @loop 1
    invariant
        it1.seq() == iter@,
        forall|p: (usize, usize)| #[trigger] arcs@.contains(p) ==> p.0 <= order && p.1 <= order && p.0 != p.1,
        forall|p: (usize, usize)| #[trigger] arcs@.contains(p) ==> exists|i: int| 0 <= i < it1.index() && it1.seq()[i] == p,
        forall|i: int| 0 <= i < it1.index() ==> arcs@.contains(#[trigger] it1.seq()[i]) && it1.seq()[i].0 != it1.seq()[i].1,
    @*/
}
} // verus!
fn main() {}
