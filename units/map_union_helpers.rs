//@unit props=C11,C13 tier=quick rlimit=30
//@file src/repr/adjacency_map/mod.rs
#![feature(allocator_api)]
use vstd::prelude::*;
use vstd::slice::SliceIndexSpec;
use vstd::std_specs::iter::IteratorSpec;
use std::collections::BTreeSet;
use std::collections::btree_set;
use core::cmp::Ordering;
verus! {
global size_of usize == 8;
// one entry of the key-sorted vectors that `AdjacencyMap::union` partitions; the layout is checked by rustc (a wrong size is a
// compile error), it is not an assumption.  Needed only to know that the entry type is not zero-sized.
type KeyRow = (usize, BTreeSet<usize>);
global layout KeyRow is size == 32, align == 8;
//@include prelude/std_contracts.rs
//@include prelude/iter_wrappers.rs
//@include prelude/map_union_helpers_std.rs

//@include units/inc/map_union_helpers.inc.rs
} // verus!
fn main() {}
