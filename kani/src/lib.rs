//! Kani harnesses (C15: loop-free function contract; C18: bounded stand-ins at fixed orders)
#[cfg(kani)]
mod c15 {
    use graaf::gen::prng::Xoshiro256StarStar;

    /// complete: loop-free, every one of the 2^256 PRNG states
    #[kani::proof_for_contract(Xoshiro256StarStar::next_f64)]
    fn next_f64_in_unit_interval() {
        let mut rng: Xoshiro256StarStar = kani::any();
        let x = rng.next_f64();
        kani::cover!(x > 0.5, "upper half reachable");
        kani::cover!(x == 0.0, "zero reachable");
    }
}

/// C18: DistanceMatrix metrics against oracles written from the property text.
/// BOUNDED stand-in: harnesses per fixed order N (entries and infinity fully symbolic); unwinding assertions are on,
/// so each harness is complete for its order and says nothing about larger orders.
#[cfg(kani)]
mod c18 {
    use graaf::DistanceMatrix;

    /// arbitrary N x N matrix with entries <= infinity, written through the public row-major vector
    macro_rules! setup {
        ($w:ty, $n:expr, $m:ident, $inf:ident, $ecc:ident) => {
            const N: usize = $n;
            let $inf: $w = kani::any();
            let mut $m = DistanceMatrix::<$w>::new(N, $inf);
            for k in 0..N * N {
                let x: $w = kani::any();
                kani::assume(x <= $inf);
                $m.dist[k] = x;
            }
            // oracle: eccentricity = maximum entry of the row
            let mut $ecc = [$inf; N];
            for i in 0..N {
                let mut mx = $m.dist[i * N];
                for j in 0..N {
                    if $m.dist[i * N + j] > mx {
                        mx = $m.dist[i * N + j];
                    }
                }
                $ecc[i] = mx;
            }
        };
    }

    macro_rules! dm_harnesses {
        ($new:ident, $ecc_h:ident, $center:ident, $periph:ident, $w:ty, $n:expr, $unwind:expr) => {
            #[kani::proof]
            #[kani::unwind($unwind)]
            fn $new() {
                const N: usize = $n;
                let inf: $w = kani::any();
                let mut m = DistanceMatrix::<$w>::new(N, inf);
                assert!(m.order == N);
                assert!(m.dist.len() == N * N);
                for k in 0..N * N {
                    assert!(m.dist[k] == inf);
                }
                for k in 0..N * N {
                    m.dist[k] = kani::any();
                }
                // (u, v) indexing addresses row u, column v (read and write)
                for i in 0..N {
                    for j in 0..N {
                        assert!(m[(i, j)] == m.dist[i * N + j]);
                    }
                }
                let i: usize = kani::any();
                let j: usize = kani::any();
                kani::assume(i < N && j < N);
                let x: $w = kani::any();
                m[(i, j)] = x;
                assert!(m.dist[i * N + j] == x);
            }

            #[kani::proof]
            #[kani::unwind($unwind)]
            fn $ecc_h() {
                setup!($w, $n, m, inf, ecc);
                let mut k = 0;
                for e in m.eccentricities() {
                    assert!(k < N && *e == ecc[k]);
                    k += 1;
                }
                assert!(k == N);
                let mut dia = ecc[0];
                for i in 0..N {
                    if ecc[i] > dia { dia = ecc[i]; }
                }
                assert!(*m.diameter() == dia);
                let mut conn = true;
                for i in 0..N {
                    if ecc[i] == inf { conn = false; }
                }
                assert!(m.is_connected() == conn);
                kani::cover!(conn, "connected matrix reachable");
                kani::cover!(!conn, "disconnected matrix reachable");
            }

            #[kani::proof]
            #[kani::unwind($unwind)]
            fn $center() {
                setup!($w, $n, m, inf, ecc);
                let mut mn = ecc[0];
                for i in 0..N {
                    if ecc[i] < mn { mn = ecc[i]; }
                }
                // center: ascending list of the vertices of minimal eccentricity
                let c = m.center();
                let mut ci = 0;
                for i in 0..N {
                    if ecc[i] == mn {
                        assert!(ci < c.len() && c[ci] == i);
                        ci += 1;
                    }
                }
                assert!(ci == c.len());
            }

            #[kani::proof]
            #[kani::unwind($unwind)]
            fn $periph() {
                setup!($w, $n, m, inf, ecc);
                let mut dia = ecc[0];
                for i in 0..N {
                    if ecc[i] > dia { dia = ecc[i]; }
                }
                // periphery: ascending list of the vertices whose eccentricity equals the diameter
                let mut expected = [N; N];
                let mut pe = 0;
                for i in 0..N {
                    if ecc[i] == dia { expected[pe] = i; pe += 1; }
                }
                let mut pi = 0;
                for v in m.periphery() {
                    assert!(pi < pe && expected[pi] == v);
                    pi += 1;
                }
                assert!(pi == pe);
            }
        };
    }

    dm_harnesses!(dm_new_usize_1, dm_ecc_usize_1, dm_center_usize_1, dm_periphery_usize_1, usize, 1, 4);
    dm_harnesses!(dm_new_usize_2, dm_ecc_usize_2, dm_center_usize_2, dm_periphery_usize_2, usize, 2, 7);
    dm_harnesses!(dm_new_usize_3, dm_ecc_usize_3, dm_center_usize_3, dm_periphery_usize_3, usize, 3, 12);
    dm_harnesses!(dm_new_usize_4, dm_ecc_usize_4, dm_center_usize_4, dm_periphery_usize_4, usize, 4, 19);
    dm_harnesses!(dm_new_isize_1, dm_ecc_isize_1, dm_center_isize_1, dm_periphery_isize_1, isize, 1, 4);
    dm_harnesses!(dm_new_isize_2, dm_ecc_isize_2, dm_center_isize_2, dm_periphery_isize_2, isize, 2, 7);
    dm_harnesses!(dm_new_isize_3, dm_ecc_isize_3, dm_center_isize_3, dm_periphery_isize_3, isize, 3, 12);
    dm_harnesses!(dm_new_isize_4, dm_ecc_isize_4, dm_center_isize_4, dm_periphery_isize_4, isize, 4, 19);
}
